package sim

import (
	"bytes"
	"encoding/base64"
	"errors"
	"sort"
)

// Harness-owned framing parser for the two container formats (CARv1 and the
// "ctn-v1" DAG-CBOR list). It lets the simulated transport address entries
// structurally (entry rank r, byte k inside it) instead of by raw offset into
// output whose entry order depends on Go's randomised map iteration.

func putUvarint(buf *bytes.Buffer, v uint64) {
	for v >= 0x80 {
		buf.WriteByte(byte(v) | 0x80)
		v >>= 7
	}
	buf.WriteByte(byte(v))
}

func getUvarint(b []byte) (uint64, int, error) {
	var v uint64
	for i := 0; i < len(b) && i < 10; i++ {
		v |= uint64(b[i]&0x7f) << (7 * uint(i))
		if b[i] < 0x80 {
			return v, i + 1, nil
		}
	}
	return 0, 0, errors.New("frame: bad uvarint")
}

type carBlk struct {
	CID  []byte
	Data []byte
	Off  int // offset of the section's length prefix
	End  int // offset just past the section
}

type carFile struct {
	Header    []byte // header section payload
	HeaderEnd int
	Blocks    []carBlk
	Complete  bool // false if parsing stopped at a truncated / malformed section
	Rest      int  // offset where parsing stopped
}

func cidLen(b []byte) (int, error) {
	if len(b) >= 34 && b[0] == 0x12 && b[1] == 0x20 {
		return 34, nil // CIDv0
	}
	p := 0
	for i := 0; i < 4; i++ { // version, codec, mh code, mh length
		v, n, err := getUvarint(b[p:])
		if err != nil {
			return 0, err
		}
		p += n
		if i == 3 {
			if uint64(len(b)-p) < v {
				return 0, errors.New("frame: short digest")
			}
			p += int(v)
		}
	}
	return p, nil
}

// parseCAR parses as much of a CARv1 byte string as is well-formed.
func parseCAR(b []byte) (*carFile, error) {
	l, n, err := getUvarint(b)
	if err != nil || l == 0 || uint64(len(b)-n) < l {
		return nil, errors.New("frame: bad CAR header section")
	}
	f := &carFile{Header: b[n : n+int(l)], HeaderEnd: n + int(l)}
	p := f.HeaderEnd
	for p < len(b) {
		l, n, err := getUvarint(b[p:])
		if err != nil || l == 0 || uint64(len(b)-p-n) < l {
			f.Rest = p
			return f, nil
		}
		sec := b[p+n : p+n+int(l)]
		cl, err := cidLen(sec)
		if err != nil {
			f.Rest = p
			return f, nil
		}
		f.Blocks = append(f.Blocks, carBlk{CID: sec[:cl], Data: sec[cl:], Off: p, End: p + n + int(l)})
		p += n + int(l)
	}
	f.Complete = true
	f.Rest = p
	return f, nil
}

func (f *carFile) Bytes() []byte {
	var buf bytes.Buffer
	putUvarint(&buf, uint64(len(f.Header)))
	buf.Write(f.Header)
	for _, b := range f.Blocks {
		putUvarint(&buf, uint64(len(b.CID)+len(b.Data)))
		buf.Write(b.CID)
		buf.Write(b.Data)
	}
	return buf.Bytes()
}

// Boundaries returns the offsets at which a cut falls exactly between two
// sections (after the header and after every block) of f.Bytes().
func (f *carFile) Boundaries() []int {
	var buf bytes.Buffer
	putUvarint(&buf, uint64(len(f.Header)))
	p := buf.Len() + len(f.Header)
	out := []int{p}
	for _, b := range f.Blocks {
		buf.Reset()
		putUvarint(&buf, uint64(len(b.CID)+len(b.Data)))
		p += buf.Len() + len(b.CID) + len(b.Data)
		out = append(out, p)
	}
	return out
}

// sortBlocks puts the blocks in CID order and then applies perm (if given),
// which removes Go's map-order nondeterminism from whatever a Writer produced.
func (f *carFile) sortBlocks(perm []int) {
	sort.SliceStable(f.Blocks, func(i, j int) bool { return bytes.Compare(f.Blocks[i].CID, f.Blocks[j].CID) < 0 })
	f.Blocks = applyPerm(f.Blocks, perm)
}

func applyPerm[T any](xs []T, perm []int) []T {
	if len(perm) == 0 {
		return xs
	}
	out := make([]T, 0, len(xs))
	used := make([]bool, len(xs))
	for _, p := range perm {
		if p >= 0 && p < len(xs) && !used[p] {
			out = append(out, xs[p])
			used[p] = true
		}
	}
	for i, x := range xs {
		if !used[i] {
			out = append(out, x)
		}
	}
	return out
}

// parseCborContainer returns the entries of a "ctn-v1" container.
func parseCborContainer(b []byte) ([][]byte, error) {
	c, err := cbDecodeAll(b)
	if err != nil {
		return nil, err
	}
	if c.Major != 5 || len(c.Kids) != 2 || c.Kids[0].Major != 3 || c.Kids[1].Major != 4 {
		return nil, errors.New("frame: not a ctn-v1 container")
	}
	var out [][]byte
	for _, k := range c.Kids[1].Kids {
		if k.Major != 2 {
			return nil, errors.New("frame: entry is not a byte string")
		}
		out = append(out, k.Data)
	}
	return out, nil
}

func buildCborContainer(version string, entries [][]byte) []byte {
	arr := &CB{Major: 4}
	for _, e := range entries {
		arr.Kids = append(arr.Kids, cbBytes(e))
	}
	return cbMap(cbText(version), arr).Encode()
}

func sortEntries(es [][]byte, perm []int) [][]byte {
	sort.SliceStable(es, func(i, j int) bool {
		return bytes.Compare(harnessCID(es[i]), harnessCID(es[j])) < 0
	})
	return applyPerm(es, perm)
}

func b64(b []byte) []byte {
	out := make([]byte, base64.StdEncoding.EncodedLen(len(b)))
	base64.StdEncoding.Encode(out, b)
	return out
}

func unb64(b []byte) ([]byte, error) {
	out := make([]byte, base64.StdEncoding.DecodedLen(len(b)))
	n, err := base64.StdEncoding.Decode(out, b)
	return out[:n], err
}
