package sim

import (
	"testing"
	"testing/cryptotest"
	"testing/synctest"
	"time"

	"github.com/ucan-wg/go-ucan/did"
)

func TestProbe(t *testing.T) {
	cryptotest.SetGlobalRandom(t, 7)
	_, d, err := did.GenerateEd25519()
	if err != nil {
		t.Fatal(err)
	}
	synctest.Test(t, func(t *testing.T) {
		t.Log(time.Now().UTC(), d)
	})
}
