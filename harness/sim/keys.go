package sim

import (
	"fmt"
	"os"
	"strings"
	"testing"
	"testing/cryptotest"

	"github.com/libp2p/go-libp2p/core/crypto"
	"github.com/ucan-wg/go-ucan/did"
)

// Key algorithms the DID package can generate.
var allAlgs = []string{"ed25519", "secp256k1", "p256", "p384", "p521", "rsa"}

var poolSize = map[string]int{"ed25519": 12, "secp256k1": 8, "p256": 8, "p384": 4, "p521": 4, "rsa": 3}

type Principal struct {
	Alg string `json:"alg"`
	K   int    `json:"k"`
}

func (p Principal) String() string { return fmt.Sprintf("%s#%d", p.Alg, p.K) }

type keyEntry struct {
	priv   crypto.PrivKey
	id     did.DID
	genErr string
}

var keyPool = map[Principal]*keyEntry{}
var poolRSA = true

// InitKeyPool generates the fixed key pool of this process with the DID
// package's own generators under the deterministic randomness seam. The pool
// is a pure function of constants, so a principal named in a plan denotes the
// same key in every process.
func InitKeyPool(t *testing.T, withRSA bool) {
	poolRSA = withRSA
	only := os.Getenv("DSIM_ALGS")
	for _, alg := range allAlgs {
		if alg == "rsa" && !withRSA {
			continue
		}
		if only != "" && !strings.Contains(only, alg) {
			continue
		}
		for k := 0; k < poolSize[alg]; k++ {
			cryptotest.SetGlobalRandom(t, fnv64(fmt.Sprintf("keypool/%s/%d", alg, k)))
			var priv crypto.PrivKey
			var id did.DID
			var err error
			switch alg {
			case "ed25519":
				priv, id, err = did.GenerateEd25519()
			case "secp256k1":
				priv, id, err = did.GenerateSecp256k1()
			case "p256":
				priv, id, err = did.GenerateECDSAWithCurve(did.P256)
			case "p384":
				priv, id, err = did.GenerateECDSAWithCurve(did.P384)
			case "p521":
				priv, id, err = did.GenerateECDSAWithCurve(did.P521)
			case "rsa":
				priv, id, err = did.GenerateRSA()
			}
			e := &keyEntry{priv: priv, id: id}
			if err != nil {
				e.genErr = err.Error()
			} else if priv == nil {
				e.genErr = "generator returned a nil key without an error"
			}
			keyPool[Principal{alg, k}] = e
		}
	}
}

func key(p Principal) *keyEntry {
	e := keyPool[p]
	if e == nil {
		panic("no such key in pool: " + p.String())
	}
	return e
}

// normPrincipal maps any (alg,k) onto an existing pool entry so that plans stay
// executable after simplification.
func normPrincipal(p Principal) Principal {
	n, ok := poolSize[p.Alg]
	if only := os.Getenv("DSIM_ALGS"); only != "" && !strings.Contains(only, p.Alg) {
		ok = false
	}
	if !ok || (p.Alg == "rsa" && !poolRSA) {
		p.Alg = "ed25519"
		n = poolSize["ed25519"]
	}
	if p.K < 0 {
		p.K = 0
	}
	p.K %= n
	return p
}
