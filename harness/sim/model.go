package sim

import (
	"encoding/hex"
	"fmt"
	"sort"
	"strconv"
	"strings"
)

// Executable reference model of "who has issued what" and of the authorisation
// decision, written from the property statements. It shares no code with
// go-ucan: its own command comparison, its own statement evaluator.

// ------------------------------------------------------------------ values

// Val is a JSON-friendly value tree used for arguments, metadata and policy
// operands.
type Val struct {
	K string  `json:"k"` // int, float, str, rstr (string given as raw bytes, may be invalid UTF-8), bool, bytes, null, list, map
	I int64   `json:"i,omitempty"`
	F float64 `json:"f,omitempty"`
	S string  `json:"s,omitempty"`
	B bool    `json:"b,omitempty"`
	X []byte  `json:"x,omitempty"`
	L []Val   `json:"l,omitempty"`
	M []KV    `json:"m,omitempty"`
}

type KV struct {
	Key string `json:"key"`
	V   Val    `json:"v"`
}

func vInt(i int64) Val     { return Val{K: "int", I: i} }
func vFloat(f float64) Val { return Val{K: "float", F: f} }
func vStr(s string) Val    { return Val{K: "str", S: s} }
func vBool(b bool) Val     { return Val{K: "bool", B: b} }
func vBytes(b []byte) Val  { return Val{K: "bytes", X: b} }
func vNull() Val           { return Val{K: "null"} }
func vList(l ...Val) Val   { return Val{K: "list", L: l} }
func vMap(m ...KV) Val     { return Val{K: "map", M: m} }

func (v Val) get(key string) (Val, bool) {
	if v.K != "map" {
		return Val{}, false
	}
	for _, kv := range v.M {
		if kv.Key == key {
			return kv.V, true
		}
	}
	return Val{}, false
}

func valEqual(a, b Val) bool {
	if a.K != b.K {
		return false
	}
	switch a.K {
	case "int":
		return a.I == b.I
	case "float":
		return a.F == b.F
	case "str":
		return a.S == b.S
	case "bool":
		return a.B == b.B
	case "bytes", "rstr":
		return string(a.X) == string(b.X)
	case "null":
		return true
	case "list":
		if len(a.L) != len(b.L) {
			return false
		}
		for i := range a.L {
			if !valEqual(a.L[i], b.L[i]) {
				return false
			}
		}
		return true
	case "map":
		if len(a.M) != len(b.M) {
			return false
		}
		for _, kv := range a.M {
			o, ok := b.get(kv.Key)
			if !ok || !valEqual(kv.V, o) {
				return false
			}
		}
		return true
	}
	return false
}

// canon renders a value with map keys sorted: used for order-insensitive
// comparison and signatures.
func (v Val) canon() string {
	switch v.K {
	case "int":
		return fmt.Sprintf("i%d", v.I)
	case "float":
		return fmt.Sprintf("f%v", v.F)
	case "str":
		return fmt.Sprintf("s%q", v.S)
	case "bool":
		return fmt.Sprintf("b%v", v.B)
	case "bytes":
		return fmt.Sprintf("x%x", v.X)
	case "rstr":
		return fmt.Sprintf("r%x", v.X)
	case "null":
		return "null"
	case "link":
		return fmt.Sprintf("l%x", v.X)
	case "list":
		parts := make([]string, len(v.L))
		for i, e := range v.L {
			parts[i] = e.canon()
		}
		return "[" + strings.Join(parts, ",") + "]"
	case "map":
		parts := make([]string, len(v.M))
		for i, kv := range v.M {
			parts[i] = fmt.Sprintf("%q:%s", kv.Key, kv.V.canon())
		}
		sort.Strings(parts)
		return "{" + strings.Join(parts, ",") + "}"
	}
	return "?" + v.K
}

func (v Val) kinds(set map[string]bool) {
	set[v.K] = true
	for _, e := range v.L {
		e.kinds(set)
	}
	for _, kv := range v.M {
		kv.V.kinds(set)
	}
}

// ------------------------------------------------------------------ policies

// Stmt is a statement of the restricted policy sub-language whose truth value
// is not open to interpretation (DESIGN 4/C03): selectors are plain field
// paths, comparisons are between numbers of the same kind, like patterns are
// over [a-z*] against strings over [a-z].
type Stmt struct {
	Op   string `json:"op"`            // == < <= > >= like not and or all any
	Sel  string `json:"sel,omitempty"` // ".a" or ".a.b"
	Val  *Val   `json:"val,omitempty"`
	Pat  string `json:"pat,omitempty"`
	Kids []Stmt `json:"kids,omitempty"`
}

// selSeg is one segment of a selector of the sub-language: .name, [i], [a:b], each
// optionally followed by "?".
type selSeg struct {
	field    string
	isField  bool
	isIndex  bool
	idx      int
	hasA     bool
	hasB     bool
	a, b     int
	optional bool
}

// parseSelModel takes a selector of the sub-language apart (the generator only writes
// well-formed ones; anything else yields ok=false and the statement gets no verdict).
func parseSelModel(sel string) ([]selSeg, bool) {
	if sel == "." || sel == "" {
		return nil, true
	}
	var out []selSeg
	i := 0
	for i < len(sel) {
		switch sel[i] {
		case '.':
			j := i + 1
			for j < len(sel) && sel[j] != '.' && sel[j] != '[' && sel[j] != '?' {
				j++
			}
			if j == i+1 {
				if j < len(sel) && sel[j] == '[' {
					i = j // ".[...]": the identity, then a bracket segment
					continue
				}
				return nil, false
			}
			out = append(out, selSeg{field: sel[i+1 : j], isField: true})
			i = j
		case '[':
			j := strings.IndexByte(sel[i:], ']')
			if j < 0 {
				return nil, false
			}
			body := sel[i+1 : i+j]
			i += j + 1
			if len(body) >= 2 && body[0] == '"' && body[len(body)-1] == '"' {
				// ["name"]: a field by quoted name (the generator uses plain names only)
				out = append(out, selSeg{field: body[1 : len(body)-1], isField: true})
			} else if c := strings.IndexByte(body, ':'); c >= 0 {
				sg := selSeg{}
				if body[:c] != "" {
					n, err := strconv.Atoi(body[:c])
					if err != nil {
						return nil, false
					}
					sg.hasA, sg.a = true, n
				}
				if body[c+1:] != "" {
					n, err := strconv.Atoi(body[c+1:])
					if err != nil {
						return nil, false
					}
					sg.hasB, sg.b = true, n
				}
				out = append(out, sg)
			} else {
				n, err := strconv.Atoi(body)
				if err != nil {
					return nil, false
				}
				out = append(out, selSeg{isIndex: true, idx: n})
			}
		case '?':
			if len(out) == 0 {
				return nil, false
			}
			out[len(out)-1].optional = true
			i++
		default:
			return nil, false
		}
	}
	return out, true
}

// sliceBounds: Python slice clamping.
func sliceBounds(sg selSeg, n int) (int, int) {
	a, b := 0, n
	if sg.hasA {
		a = sg.a
		if a < 0 {
			a += n
		}
	}
	if sg.hasB {
		b = sg.b
		if b < 0 {
			b += n
		}
	}
	if a < 0 {
		a = 0
	}
	if a > n {
		a = n
	}
	if b < 0 {
		b = 0
	}
	if b > n {
		b = n
	}
	if b < a {
		b = a
	}
	return a, b
}

func stepSel(sg selSeg, cur Val) (Val, bool) {
	switch {
	case sg.isField:
		return cur.get(sg.field)
	case sg.isIndex:
		if cur.K == "bytes" {
			// an index into a byte string is the byte, as an integer
			i := sg.idx
			if i < 0 {
				i += len(cur.X)
			}
			if i < 0 || i >= len(cur.X) {
				return Val{}, false
			}
			return vInt(int64(cur.X[i])), true
		}
		if cur.K != "list" {
			return Val{}, false
		}
		i := sg.idx
		if i < 0 {
			i += len(cur.L)
		}
		if i < 0 || i >= len(cur.L) {
			return Val{}, false
		}
		return cur.L[i], true
	default:
		switch cur.K {
		case "list":
			a, b := sliceBounds(sg, len(cur.L))
			return Val{K: "list", L: append([]Val{}, cur.L[a:b]...)}, true
		case "str":
			rs := []rune(cur.S)
			a, b := sliceBounds(sg, len(rs))
			return vStr(string(rs[a:b])), true
		case "bytes":
			a, b := sliceBounds(sg, len(cur.X))
			return vBytes(append([]byte{}, cur.X[a:b]...)), true
		}
		return Val{}, false
	}
}

// resolve follows a selector of the sub-language (fields, list indexes, list and string
// slices by character). ok=false means the path is definitely absent.
func resolveSel(sel string, v Val) (Val, bool) {
	segs, ok := parseSelModel(sel)
	if !ok {
		return Val{}, false
	}
	cur := v
	for _, sg := range segs {
		n, ok := stepSel(sg, cur)
		if !ok {
			return Val{}, false
		}
		cur = n
	}
	return cur, true
}

// globModel: the glob language written down from its definition: an unescaped * stands for any
// (possibly empty) sequence, a backslash makes the next character literal, every other character
// stands for itself - whatever characters the string holds. (A pattern ending in a lone
// backslash is never generated.)
func globModel(pat, s string) bool {
	type tok struct {
		star bool
		c    byte
	}
	var toks []tok
	for i := 0; i < len(pat); i++ {
		switch {
		case pat[i] == '\\' && i+1 < len(pat):
			i++
			toks = append(toks, tok{c: pat[i]})
		case pat[i] == '*':
			toks = append(toks, tok{star: true})
		default:
			toks = append(toks, tok{c: pat[i]})
		}
	}
	var m func(ti, si int) bool
	m = func(ti, si int) bool {
		if ti == len(toks) {
			return si == len(s)
		}
		if toks[ti].star {
			for k := si; k <= len(s); k++ {
				if m(ti+1, k) {
					return true
				}
			}
			return false
		}
		return si < len(s) && s[si] == toks[ti].c && m(ti+1, si+1)
	}
	return m(0, 0)
}

func cmpNum(op string, a, b Val) bool {
	var c int
	switch {
	case a.K == "int" && b.K == "int":
		switch {
		case a.I < b.I:
			c = -1
		case a.I > b.I:
			c = 1
		}
	case a.K == "float" && b.K == "float":
		switch {
		case a.F < b.F:
			c = -1
		case a.F > b.F:
			c = 1
		}
	default:
		return false
	}
	switch op {
	case "<":
		return c < 0
	case "<=":
		return c <= 0
	case ">":
		return c > 0
	case ">=":
		return c >= 0
	}
	return false
}

// evalStmt is the classical reading; a definitely absent path makes the
// statement false (the generator only puts possibly-absent paths in top-level
// comparison statements, so that this does not lean on the fine print of
// missing data under not/or).
// missingOptional: following the path segment by segment, the first segment
// that does not resolve is an optional one ("x?").
func missingOptional(sel string, v Val) bool {
	segs, ok := parseSelModel(sel)
	if !ok {
		return false
	}
	cur := v
	for _, sg := range segs {
		n, ok := stepSel(sg, cur)
		if !ok {
			return sg.optional
		}
		cur = n
	}
	return false
}

func evalStmt(s Stmt, args Val) bool {
	// a statement over a missing optional path (".x?") passes; the generator places such
	// statements at top level only (underneath not/or the verdict is not definite)
	if missingOptional(s.Sel, args) {
		return true
	}
	switch s.Op {
	case "==":
		v, ok := resolveSel(s.Sel, args)
		return ok && valEqual(v, *s.Val)
	case "<", "<=", ">", ">=":
		v, ok := resolveSel(s.Sel, args)
		return ok && cmpNum(s.Op, v, *s.Val)
	case "like":
		v, ok := resolveSel(s.Sel, args)
		return ok && v.K == "str" && globModel(s.Pat, v.S)
	case "not":
		return !evalStmt(s.Kids[0], args)
	case "and":
		for _, k := range s.Kids {
			if !evalStmt(k, args) {
				return false
			}
		}
		return true
	case "or":
		for _, k := range s.Kids {
			if evalStmt(k, args) {
				return true
			}
		}
		return false
	case "all", "any":
		v, ok := resolveSel(s.Sel, args)
		if !ok || v.K != "list" {
			return false
		}
		for _, e := range v.L {
			r := evalStmt(s.Kids[0], e)
			if s.Op == "all" && !r {
				return false
			}
			if s.Op == "any" && r {
				return true
			}
		}
		return s.Op == "all"
	}
	return false
}

// definiteStmt reports whether the classical reading of s on args is beyond
// dispute: it is not when a definitely absent path occurs underneath a not or
// an or (there the four-valued "missing data" rules of the policy language
// decide, which belong to C11 and are not claimed). The oracles give no
// verdict on the policy clause for such statements; this situation arises only
// through argument hooks that remove an argument and through minimiser
// candidates, never from the generator's own statements.
func optionalSel(sel string) bool { return strings.Contains(sel, "?") }

func definiteStmt(s Stmt, args Val, underNotOr bool) bool {
	switch s.Op {
	case "==", "<", "<=", ">", ">=", "like":
		_, ok := resolveSel(s.Sel, args)
		return ok || !underNotOr
	case "not", "or":
		for _, k := range s.Kids {
			if !definiteStmt(k, args, true) {
				return false
			}
		}
		return true
	case "and":
		for _, k := range s.Kids {
			if !definiteStmt(k, args, underNotOr) {
				return false
			}
		}
		return true
	case "all", "any":
		v, ok := resolveSel(s.Sel, args)
		if !ok {
			return !underNotOr
		}
		if v.K != "list" {
			return true
		}
		for _, e := range v.L {
			if !definiteStmt(s.Kids[0], e, underNotOr) {
				return false
			}
		}
		return true
	}
	return false
}

func stmtKinds(ss []Stmt, set map[string]bool) {
	for _, s := range ss {
		set[s.Op] = true
		stmtKinds(s.Kids, set)
	}
}

// ------------------------------------------------------------------ commands

// cmdBytesPrefix marks a command given as raw bytes (hex), for texts JSON cannot carry: commands
// that are not valid UTF-8. cmdText gives the text itself.
const cmdBytesPrefix = "x-bytes:"

func cmdText(c string) string {
	if strings.HasPrefix(c, cmdBytesPrefix) {
		if b, err := hex.DecodeString(c[len(cmdBytesPrefix):]); err == nil {
			return string(b)
		}
	}
	return c
}

func cmdBytes(text string) string { return cmdBytesPrefix + hex.EncodeToString([]byte(text)) }

func cmdSegs(c string) []string {
	c = cmdText(c)
	if c == "/" {
		return nil
	}
	return strings.Split(c, "/")[1:]
}

// coversModel: segment-list prefix.
func coversModel(parent, child string) bool {
	p, c := cmdSegs(parent), cmdSegs(child)
	if len(p) > len(c) {
		return false
	}
	for i := range p {
		if p[i] != c[i] {
			return false
		}
	}
	return true
}

func cmdRelation(parent, child string) string {
	switch {
	case parent == child:
		return "equal"
	case parent == "/":
		return "top"
	case coversModel(parent, child):
		return "parent"
	case coversModel(child, parent):
		return "child"
	case strings.HasPrefix(child, parent) || strings.HasPrefix(parent, child):
		return "textprefix"
	}
	return "sibling"
}

// ------------------------------------------------------------------ records

const simEpochUnix = 946684800 // 2000-01-01T00:00:00Z, where a synctest bubble's clock starts

type MetaSpec struct {
	Key    string `json:"key"`
	V      *Val   `json:"v,omitempty"`
	Secret []byte `json:"secret,omitempty"` // encrypted entry: plaintext
	EncKey []byte `json:"enc_key,omitempty"`
	AsStr  bool   `json:"as_str,omitempty"`
}

// DlgSpec is the abstract record of one delegation.
type DlgSpec struct {
	Label    string     `json:"label"`
	Iss      int        `json:"iss"`
	Aud      int        `json:"aud"`
	Sub      int        `json:"sub"` // -1: no subject (powerline)
	Cmd      string     `json:"cmd"`
	Pol      []Stmt     `json:"pol,omitempty"`
	Nbf      *int64     `json:"nbf,omitempty"` // seconds after the simulation epoch
	Exp      *int64     `json:"exp,omitempty"`
	SubMilli int64      `json:"sub_ms,omitempty"`     // sub-second part added to the bounds at construction
	NbfMilli int64      `json:"nbf_sub_ms,omitempty"` // if set, the sub-second part of the not-before (both bounds may then share a second)
	Relative bool       `json:"relative,omitempty"`   // bounds given through With…In (clock-derived)
	NonceLen int        `json:"nonce_len,omitempty"`  // 0: generated
	Meta     []MetaSpec `json:"meta,omitempty"`
	UseRoot  bool       `json:"use_root,omitempty"`  // constructed with delegation.Root
	RawCmd   string     `json:"raw_cmd,omitempty"`   // a deviating (byzantine) issuer: the sealed token's cmd is rewritten to this text and re-signed with the issuer's key; the model reads it as the command
	ShareOpt string     `json:"share_opt,omitempty"` // the expiration option VALUE is created once under this name and reused by every delegation that names it (issuers that build their options once)
	RawNbf   int64      `json:"raw_nbf,omitempty"`   // a deviating issuer: the sealed token's nbf is rewritten to this many seconds since 1970 and re-signed; the model reads it as a not-before that far away
	PolFrom  string     `json:"pol_from,omitempty"`  // attenuation idiom: the policy is append(<that delegation object>.Policy(), own statements...); Pol lists all of them
	PolSpare bool       `json:"pol_spare,omitempty"` // policy assembled with append(policy.Construct(a...), policy.Construct(b...)...): slice with spare capacity
}

// InvSpec is the abstract record of one invocation.
type InvSpec struct {
	Label    string     `json:"label"`
	Iss      int        `json:"iss"`
	Sub      int        `json:"sub"`
	Aud      int        `json:"aud"` // -1: unset
	Cmd      string     `json:"cmd"`
	Args     []KV       `json:"args,omitempty"`
	Prf      []string   `json:"prf"` // delegation labels; an unknown label is a CID nobody stored
	Exp      *int64     `json:"exp,omitempty"`
	Relative bool       `json:"relative,omitempty"`
	Iat      string     `json:"iat,omitempty"` // "", "none", "past", "future"
	NonceLen int        `json:"nonce_len,omitempty"`
	Meta     []MetaSpec `json:"meta,omitempty"`
	Cause    bool       `json:"cause,omitempty"`
	// ArgsVia: which public route the arguments take into the constructor: "" one WithArgument
	// per entry; "args" args.New + Add + WithArguments; "builder" args.NewBuilder; "include"
	// Include from another Args; "split" half through WithArguments, half through WithArgument
	ArgsVia string `json:"args_via,omitempty"`
}

func (s InvSpec) argsVal() Val { return Val{K: "map", M: s.Args} }

type chainVerdict struct {
	Qdefinite     bool
	P, K, Q       bool
	Wsound        bool // T not strictly outside any window
	Wstrict       bool // T strictly inside every window
	whyP, whyK    string
	whyQ, whyW    string
	exactOnABound bool
}

// window relation of an instant (ns after epoch) to a bound in seconds.
func relTo(tNS int64, boundS int64) int {
	// (bounds beyond +/-292 years from the simulation epoch do not fit in int64 nanoseconds)
	if boundS > 9_000_000_000 {
		return -1
	}
	if boundS < -9_000_000_000 {
		return 1
	}
	b := boundS * 1_000_000_000
	switch {
	case tNS < b:
		return -1
	case tNS > b:
		return 1
	}
	return 0
}

// windowModel returns (notStrictlyOutside, strictlyInside).
func windowModel(tNS int64, nbf, exp *int64) (sound, strict bool) {
	sound, strict = true, true
	if nbf != nil {
		switch relTo(tNS, *nbf) {
		case -1:
			sound, strict = false, false
		case 0:
			strict = false
		}
	}
	if exp != nil {
		switch relTo(tNS, *exp) {
		case 1:
			sound, strict = false, false
		case 0:
			strict = false
		}
	}
	return
}

// decide evaluates the four clauses on exactly the delegations the loader
// returned during the call (dlgs[i] == nil: proof i was not returned).
func decide(inv InvSpec, dlgs []*DlgSpec, args Val, tNS int64) chainVerdict {
	v := chainVerdict{P: true, K: true, Q: true, Qdefinite: true}
	fail := func(flag *bool, why *string, msg string) {
		if *flag {
			*flag = false
			*why = msg
		}
	}
	if len(dlgs) == 0 {
		fail(&v.P, &v.whyP, "empty proof list")
	}
	for i, d := range dlgs {
		if d == nil {
			fail(&v.P, &v.whyP, fmt.Sprintf("proof %d not loaded", i))
		}
	}
	if v.P {
		if dlgs[0].Aud != inv.Iss {
			fail(&v.P, &v.whyP, "first delegation not issued to the invoker")
		}
		for i := 0; i+1 < len(dlgs); i++ {
			if dlgs[i].Iss != dlgs[i+1].Aud {
				fail(&v.P, &v.whyP, fmt.Sprintf("issuer of link %d is not the audience of link %d", i, i+1))
			}
		}
		last := dlgs[len(dlgs)-1]
		if last.Iss != last.Sub {
			fail(&v.P, &v.whyP, "last delegation not issued by its own subject")
		}
		for i, d := range dlgs {
			if d.Sub != inv.Sub {
				fail(&v.P, &v.whyP, fmt.Sprintf("link %d names another subject", i))
			}
		}
	}
	// K, Q, W are evaluated over the loaded delegations only; with a missing
	// one P is already false and they are not consulted by any oracle.
	v.Wsound, v.Wstrict = windowModel(tNS, nil, inv.Exp)
	if !v.Wsound {
		v.whyW = "invocation outside its window"
	}
	cur := inv.Cmd
	for i, d := range dlgs {
		if d == nil {
			continue
		}
		if !coversModel(d.Cmd, cur) {
			fail(&v.K, &v.whyK, fmt.Sprintf("link %d command %s does not cover %s", i, d.Cmd, cur))
		}
		cur = d.Cmd
		for j, s := range d.Pol {
			if !definiteStmt(s, args, false) {
				v.Qdefinite = false
			}
			if !evalStmt(s, args) {
				fail(&v.Q, &v.whyQ, fmt.Sprintf("link %d statement %d false", i, j))
			}
		}
		so, st := windowModel(tNS, d.Nbf, d.Exp)
		if !so && v.Wsound {
			v.Wsound = false
			v.whyW = fmt.Sprintf("link %d outside its window", i)
		}
		if !st {
			v.Wstrict = false
		}
	}
	return v
}
