package sim

import (
	"bytes"
	"errors"
	"fmt"
	"io"
	"io/fs"
)

// Simulated disk / network endpoints. They are the only I/O the library sees
// in the stream and container scenarios: chunking, errors, early EOF, short
// writes and disk-full all come from the plan.

var errInjectedRead = errors.New("dsim: injected read error")
var errInjectedWrite = errors.New("dsim: injected write error")

// errors a real transport hands out: end-of-file wrapped in context (still a failure: the caller
// did not get its data), a path error around it
var errWrappedEOF = fmt.Errorf("dsim: connection closed by peer: %w", io.EOF)
var errWrappedUEOF = &fs.PathError{Op: "read", Path: "/dsim/simulated", Err: io.ErrUnexpectedEOF}
var errTransientRead = errors.New("dsim: i/o timeout (transient)")
var errNoSpace = errors.New("dsim: no space left on simulated device")

type ReadFault struct {
	Kind string `json:"kind,omitempty"` // "", "err" (0,err), "err_n" (n>0,err), "eof" (early EOF)
	At   int    `json:"at,omitempty"`   // byte offset
}

type simReader struct {
	data    []byte
	pos     int
	chunks  []int // read sizes, cycled; 0 = a zero-length read
	ci      int
	eofData bool // last chunk is returned together with io.EOF
	fault   ReadFault
	fired   bool // the failing Read call was actually made
	done    error
	calls   int
	zeroRun bool
}

func newSimReader(data []byte, chunks []int, eofData bool, f ReadFault) *simReader {
	return &simReader{data: data, chunks: chunks, eofData: eofData, fault: f}
}

func (r *simReader) Read(p []byte) (int, error) {
	r.calls++
	if r.done != nil {
		return 0, r.done
	}
	if len(p) == 0 {
		return 0, nil
	}
	limit := len(r.data)
	if r.fault.Kind != "" && r.fault.At < limit && !(r.fault.Kind == "err_n1" && r.fired) {
		limit = r.fault.At
	}
	if r.fault.Kind == "err_n1" {
		// transient: the read that ends at the offset delivers its bytes TOGETHER with an error
		// (a timeout), once; the source then carries on as if nothing had happened
		if !r.fired && r.pos >= r.fault.At {
			r.fired = true // (offset 0: nothing to deliver with it)
			return 0, errTransientRead
		}
	} else if r.fault.Kind != "" && r.pos >= r.fault.At && r.fault.At <= len(r.data) {
		switch r.fault.Kind {
		case "err", "err_n":
			r.fired = true
			r.done = errInjectedRead
			return 0, r.done
		case "err_weof", "err_wueof":
			r.fired = true
			r.done = errWrappedEOF
			if r.fault.Kind == "err_wueof" {
				r.done = errWrappedUEOF
			}
			return 0, r.done
		case "eof":
			if r.fault.At < len(r.data) {
				r.fired = true
			}
			r.done = io.EOF
			return 0, io.EOF
		}
	}
	if r.pos >= len(r.data) {
		r.done = io.EOF
		return 0, io.EOF
	}
	n := len(p)
	if len(r.chunks) > 0 {
		c := r.chunks[r.ci%len(r.chunks)]
		r.ci++
		if c == 0 && !r.zeroRun {
			r.zeroRun = true // never two zero-length reads in a row
			return 0, nil
		}
		r.zeroRun = false
		if c > 0 && c < n {
			n = c
		}
	}
	if n > limit-r.pos {
		n = limit - r.pos
	}
	copy(p, r.data[r.pos:r.pos+n])
	r.pos += n
	if r.fault.Kind == "err_n1" && !r.fired && r.pos == r.fault.At && n > 0 {
		r.fired = true
		return n, errTransientRead
	}
	if r.fault.Kind == "err_n" && r.pos == r.fault.At && n > 0 {
		r.fired = true
		r.done = errInjectedRead
		return n, r.done
	}
	if r.eofData && r.pos == len(r.data) && r.fault.Kind == "" {
		r.done = io.EOF
		return n, io.EOF
	}
	return n, nil
}

type WriteFault struct {
	Kind string `json:"kind,omitempty"` // "", "err" (call i and all later ones fail), "short" (call i is short, later ones fail), "err1" / "short1" (transient: only call i), "full" (device holds At bytes)
	At   int    `json:"at,omitempty"`
}

type simWriter struct {
	buf   bytes.Buffer
	calls int
	sizes []int
	fault WriteFault
	fired bool
	done  error
}

func newSimWriter(f WriteFault) *simWriter { return &simWriter{fault: f} }

func (w *simWriter) Write(p []byte) (int, error) {
	i := w.calls
	w.calls++
	w.sizes = append(w.sizes, len(p))
	if w.done != nil {
		w.fired = true
		return 0, w.done
	}
	switch w.fault.Kind {
	case "err":
		if i == w.fault.At {
			w.fired = true
			w.done = errInjectedWrite
			return 0, w.done
		}
	case "err1": // transient: this call fails, later calls succeed
		if i == w.fault.At {
			w.fired = true
			return 0, errInjectedWrite
		}
	case "short1":
		if i == w.fault.At {
			w.fired = true
			n := len(p) / 2
			w.buf.Write(p[:n])
			return n, io.ErrShortWrite
		}
	case "short":
		if i == w.fault.At {
			w.fired = true
			n := len(p) / 2
			w.buf.Write(p[:n])
			w.done = io.ErrShortWrite
			return n, io.ErrShortWrite
		}
	case "full":
		if w.buf.Len()+len(p) > w.fault.At {
			w.fired = true
			n := w.fault.At - w.buf.Len()
			if n < 0 {
				n = 0
			}
			w.buf.Write(p[:n])
			w.done = errNoSpace
			return n, errNoSpace
		}
	}
	w.buf.Write(p)
	return len(p), nil
}

func (w *simWriter) Bytes() []byte { return w.buf.Bytes() }
