package sim

import (
	"bytes"
	"crypto/sha256"
	"encoding/json"
	"fmt"
	dsecp "github.com/decred/dcrd/dcrec/secp256k1/v4"
	decdsa "github.com/decred/dcrd/dcrec/secp256k1/v4/ecdsa"
	"github.com/libp2p/go-libp2p/core/crypto"
	"math"
	"sort"
	"strings"
	"testing"
	"testing/synctest"

	"github.com/ipfs/go-cid"
	"github.com/ipld/go-ipld-prime"
	"github.com/ipld/go-ipld-prime/codec/dagcbor"
	"github.com/ipld/go-ipld-prime/datamodel"
	"github.com/ipld/go-ipld-prime/node/basicnode"

	"github.com/ipld/go-ipld-prime/codec/dagjson"
	"github.com/ucan-wg/go-ucan/did"
	"github.com/ucan-wg/go-ucan/pkg/args"
	"github.com/ucan-wg/go-ucan/pkg/command"
	"github.com/ucan-wg/go-ucan/pkg/meta"
	"github.com/ucan-wg/go-ucan/pkg/policy"
	"github.com/ucan-wg/go-ucan/pkg/policy/literal"
	"github.com/ucan-wg/go-ucan/pkg/policy/selector"
	"github.com/ucan-wg/go-ucan/token"
	"github.com/ucan-wg/go-ucan/token/delegation"
	"github.com/ucan-wg/go-ucan/token/invocation"
)

// The `wire` scenario: honest principals seal tokens; the transport between
// them and the decoders flips, cuts, splices and re-encodes bytes, rewrites
// fields under the old signature, swaps signatures and headers; byzantine
// principals sign hostile payloads with their real keys. Decides C06, the
// canonicity clause of C08, C09 and C10, and monitors C07 on every fault-free
// delivery.

type XStep struct {
	Op    string `json:"op"`
	Codec string `json:"codec,omitempty"` // cbor | json
	Tok   int    `json:"tok,omitempty"`
	Lo    int    `json:"lo,omitempty"`
	Hi    int    `json:"hi,omitempty"`
	Kind  string `json:"kind,omitempty"`
	At    int    `json:"at,omitempty"`
	Val   int    `json:"val,omitempty"`
	Field string `json:"field,omitempty"`
	How   string `json:"how,omitempty"`
	Depth int    `json:"depth,omitempty"`
	GoT   string `json:"go_type,omitempty"`
	GoV   string `json:"go_val,omitempty"`
	// Stride: flip_all / trunc_all / del_all visit every Stride-th position (0 = every one)
	Stride int `json:"stride,omitempty"`
}

type WirePlan struct {
	Cast   []Principal `json:"cast"`
	Tokens []TokSpec   `json:"tokens"` // [0] base token, [1] second token (splices)
	Steps  []XStep     `json:"steps"`
}

func (p *WirePlan) Len() int { return len(p.Steps) }
func (p *WirePlan) Keep(keep []bool) Plan {
	q := *p
	q.Steps = nil
	for i, s := range p.Steps {
		if keep[i] {
			q.Steps = append(q.Steps, s)
		}
	}
	return &q
}
func (p *WirePlan) clone() *WirePlan {
	b, _ := json.Marshal(p)
	var q WirePlan
	json.Unmarshal(b, &q)
	return &q
}
func (p *WirePlan) Summary() map[string]any {
	var ops []string
	for _, s := range p.Steps {
		ops = append(ops, strings.Trim(s.Op+":"+s.Kind+":"+s.Field+":"+s.How, ":"))
	}
	b, _ := json.Marshal(p)
	var full any
	if len(b) < 5000 {
		json.Unmarshal(b, &full)
	}
	return map[string]any{"scenario": "wire", "ops": ops, "plan": full}
}

func (p *WirePlan) Simpler() []Plan {
	var out []Plan
	mut := func(f func(q *WirePlan) bool) {
		q := p.clone()
		if f(q) {
			out = append(out, q)
		}
	}
	for i, s := range p.Steps {
		i := i
		switch s.Op {
		case "flip_all", "trunc_all", "del_all":
			hi := s.Hi
			if hi < 0 {
				hi = 1 << 15
			}
			if hi > s.Lo && s.Lo >= 0 {
				mid := (s.Lo + hi) / 2
				mut(func(q *WirePlan) bool { q.Steps[i].Hi = mid; return true })
				mut(func(q *WirePlan) bool { q.Steps[i].Lo = mid + 1; q.Steps[i].Hi = hi; return true })
			}
		case "hostile":
			if s.Depth > 4 {
				mut(func(q *WirePlan) bool { q.Steps[i].Depth /= 2; return true })
			}
		}
	}
	// simplify the tokens
	for ti := range p.Tokens {
		ti := ti
		if t := p.Tokens[ti]; t.Kind == "dlg" {
			d := t.Dlg
			if len(d.Pol) > 0 {
				mut(func(q *WirePlan) bool { q.Tokens[ti].Dlg.Pol = nil; return true })
			}
			if len(d.Meta) > 0 || d.Nbf != nil || d.Exp != nil {
				mut(func(q *WirePlan) bool { x := q.Tokens[ti].Dlg; x.Meta, x.Nbf, x.Exp = nil, nil, nil; return true })
			}
		} else if t.Kind == "inv" {
			v := t.Inv
			for j := range v.Args {
				j := j
				mut(func(q *WirePlan) bool {
					a := q.Tokens[ti].Inv.Args
					q.Tokens[ti].Inv.Args = append(a[:j:j], a[j+1:]...)
					return true
				})
			}
			if len(v.Meta) > 0 || v.Exp != nil || v.Cause || len(v.Prf) > 0 {
				mut(func(q *WirePlan) bool {
					x := q.Tokens[ti].Inv
					x.Meta, x.Exp, x.Cause, x.Prf = nil, nil, false, nil
					return true
				})
			}
		}
	}
	for i := range p.Cast {
		if p.Cast[i].Alg != "ed25519" {
			i := i
			mut(func(q *WirePlan) bool { q.Cast[i] = Principal{"ed25519", i % poolSize["ed25519"]}; return true })
		}
	}
	return out
}

// ------------------------------------------------------------------ executor

type wireTok struct {
	spec    TokSpec
	obj     token.Token
	alg     string
	cbor    []byte
	json    []byte
	content string
	issuer  string
	intFlt  bool
	rawStr  bool
	base    map[string]string // decoder -> result of the first interleaved decode of the honest bytes
}

type wireExec struct {
	t      *testing.T
	o      *Outcome
	p      *WirePlan
	seed   uint64
	cast   cast
	toks   []*wireTok
	ledger map[string]map[string]bool // issuer DID -> signed contents
	signed map[string]bool            // canonical encodings of every SigPayload an honest principal signed
	pubs   map[string]crypto.PubKey   // issuer DID -> public key (for the harness's own signature check)
	cur    *wireTok                   // the honest token the current step derives its mutants from
	offers int
}

func hasIntegralFloat(v Val) bool {
	if v.K == "float" && v.F == math.Trunc(v.F) {
		return true
	}
	for _, e := range v.L {
		if hasIntegralFloat(e) {
			return true
		}
	}
	for _, kv := range v.M {
		if hasIntegralFloat(kv.V) {
			return true
		}
	}
	return false
}

func hasRawStr(v Val) bool {
	if v.K == "rstr" {
		return true
	}
	for _, e := range v.L {
		if hasRawStr(e) {
			return true
		}
	}
	for _, kv := range v.M {
		if hasRawStr(kv.V) {
			return true
		}
	}
	return false
}

func specHasRawStr(s TokSpec) bool {
	if s.Kind == "inv" {
		for _, kv := range s.Inv.Args {
			if hasRawStr(kv.V) {
				return true
			}
		}
		for _, m := range s.Inv.Meta {
			if m.V != nil && hasRawStr(*m.V) {
				return true
			}
		}
		return false
	}
	for _, m := range s.Dlg.Meta {
		if m.V != nil && hasRawStr(*m.V) {
			return true
		}
	}
	return false
}

func specHasIntegralFloat(s TokSpec) bool {
	var ms []MetaSpec
	if s.Kind == "inv" {
		for _, kv := range s.Inv.Args {
			if hasIntegralFloat(kv.V) {
				return true
			}
		}
		ms = s.Inv.Meta
	} else {
		ms = s.Dlg.Meta
		var walk func(ss []Stmt) bool
		walk = func(ss []Stmt) bool {
			for _, st := range ss {
				if st.Val != nil && hasIntegralFloat(*st.Val) {
					return true
				}
				if walk(st.Kids) {
					return true
				}
			}
			return false
		}
		if walk(s.Dlg.Pol) {
			return true
		}
	}
	for _, m := range ms {
		if m.V != nil && hasIntegralFloat(*m.V) {
			return true
		}
	}
	return false
}

func execWire(t *testing.T, pl Plan, seed uint64, o *Outcome) {
	p := pl.(*WirePlan)
	e := &wireExec{t: t, o: o, p: p, seed: seed, ledger: map[string]map[string]bool{}, signed: map[string]bool{}}
	for _, c := range p.Cast {
		e.cast = append(e.cast, normPrincipal(c))
	}
	if len(e.cast) == 0 {
		e.cast = cast{{"ed25519", 0}}
	}
	// phase 1 (inside a bubble: bounds are made from the fake clock): construct and seal
	synctest.Test(t, func(t *testing.T) {
		defer func() {
			if r := recover(); r != nil {
				o.Harness(fmt.Sprintf("panic in wire executor (construction): %v", r))
			}
		}()
		for i, ts := range p.Tokens {
			e.construct(i, ts)
		}
	})
	if o.HarnessErr != "" || len(e.toks) == 0 || e.toks[0] == nil {
		return
	}
	// phase 2 (real time: watchdog and allocation meter work): deliveries
	func() {
		defer func() {
			if r := recover(); r != nil {
				o.Harness(fmt.Sprintf("panic in wire executor: %v", r))
			}
		}()
		for i := range p.Steps {
			e.step(&p.Steps[i])
			if o.HarnessErr != "" {
				return
			}
		}
	}()
}

func (e *wireExec) construct(i int, ts TokSpec) {
	o := e.o
	for len(e.toks) <= i {
		e.toks = append(e.toks, nil)
	}
	var obj token.Token
	var err error
	if guard(o, "constructor", func() { obj, err = buildTok(e.cast, ts) }) {
		return
	}
	o.Eval("C10")
	// what a constructor must refuse
	mustRefuse := ""
	switch {
	case ts.Kind == "dlg" && ts.Dlg.NonceLen > 0 && ts.Dlg.NonceLen < 12, ts.Kind == "inv" && ts.Inv.NonceLen > 0 && ts.Inv.NonceLen < 12:
		mustRefuse = "a nonce shorter than 12 bytes"
	case ts.Kind == "dlg" && (ts.Dlg.Iss < 0 || ts.Dlg.Aud < 0):
		mustRefuse = "an undefined issuer or audience"
	case ts.Kind == "inv" && (ts.Inv.Iss < 0 || ts.Inv.Sub < 0):
		mustRefuse = "an undefined issuer or subject"
	}
	if mustRefuse != "" {
		o.Sig("C10", "constructor-refuses", ts.Kind, mustRefuse, err != nil)
		if err == nil && !isNilTok(obj) {
			o.Violate("C10", "constructor-accepted-ill-formed", fmt.Sprintf("%s constructor accepted %s", ts.Kind, mustRefuse), map[string]string{"what": mustRefuse})
		}
	}
	if err != nil || obj == nil {
		o.Logf("token %d: constructor refused", i)
		o.Probe("constructor_refused")
		return
	}
	wellFormed(o, obj, "constructor")
	// values a caller supplies are stored exactly (or were refused above): every argument and
	// every plain metadata entry of the constructed token, against the harness's own encoding
	if inv, ok := obj.(*invocation.Token); ok {
		for _, kv := range ts.Inv.Args {
			n, gerr := inv.Arguments().GetNode(kv.Key)
			o.Eval("C10")
			if gerr != nil || !storedEquals(n, kv.V) {
				o.Violate("C10", "argument-altered", fmt.Sprintf("argument %q stored as %s, supplied %s", kv.Key, nodeHex(n), kv.V.canon()), map[string]string{"kind": kv.V.K})
				break
			}
		}
	}
	cloneIndependence(o, obj, "constructed")
	if ts.Kind == "inv" && (len(ts.Inv.Args) > 0 || len(ts.Inv.Meta) > 0) {
		// the same invocation without any argument and without metadata (the empty collections
		// are values too): constructed, and read back from its sealed form
		bare := ts
		inv0 := *ts.Inv
		inv0.Args, inv0.Meta = nil, nil
		bare.Inv = &inv0
		var b0 token.Token
		if !guard(o, "constructor", func() { b0, err = buildTok(e.cast, bare) }) && err == nil && !isNilTok(b0) {
			cloneIndependence(o, b0, "constructed without arguments")
			bi := bare.iss()
			if bi < 0 {
				bi = 0
			}
			if sealed, _, serr := b0.ToSealed(e.cast.ent(bi).priv); serr == nil {
				if d0, _, derr := token.FromSealed(sealed); derr == nil && !isNilTok(d0) {
					cloneIndependence(o, d0, "decoded without arguments")
				}
			}
		}
	}
	issIdx := ts.iss()
	if issIdx < 0 {
		issIdx = 0
	}
	ent := e.cast.ent(issIdx)
	alg := e.cast[issIdx%len(e.cast)].Alg
	w := &wireTok{spec: ts, obj: obj, alg: alg, intFlt: specHasIntegralFloat(ts), rawStr: specHasRawStr(ts)}
	var c cid.Cid
	reseed(e.t, e.seed, fmt.Sprint("seal", i))
	if guard(o, "ToSealed", func() { w.cbor, c, err = obj.ToSealed(ent.priv) }) {
		return
	}
	attrs := map[string]string{"alg": alg, "type": ts.Kind, "codec": "dag-cbor"}
	if err != nil {
		o.Violate("C07", "seal-failed", fmt.Sprintf("%s token of a %s principal cannot be sealed: %v", ts.Kind, alg, err), attrs)
		return
	}
	o.Eval("C08")
	if !bytes.Equal(c.Bytes(), harnessCID(w.cbor)) {
		o.Violate("C08", "seal-cid", "ToSealed CID is not the hash of the sealed bytes", nil)
	}
	// streaming seal: same bytes, same CID
	reseed(e.t, e.seed, fmt.Sprint("seal", i))
	sw := newSimWriter(WriteFault{})
	var wc cid.Cid
	if !guard(o, "ToSealedWriter", func() { wc, err = obj.ToSealedWriter(sw, ent.priv) }) && err == nil {
		o.Eval("C08")
		o.Sig("C08", "seal", "stream-vs-buffer", ts.Kind, len(w.cbor) > 4096)
		if !bytes.Equal(sw.Bytes(), w.cbor) || !bytes.Equal(wc.Bytes(), harnessCID(sw.Bytes())) {
			o.Violate("C08", "stream-seal-cid", fmt.Sprintf("ToSealedWriter of a %d-byte token: bytes equal to ToSealed: %v, CID is the hash of the bytes written: %v", len(w.cbor), bytes.Equal(sw.Bytes(), w.cbor), bytes.Equal(wc.Bytes(), harnessCID(sw.Bytes()))), nil)
		}
	}
	// ... also when the sink is a bytes.Buffer that already holds something (a frame prefix)
	reseed(e.t, e.seed, fmt.Sprint("seal", i))
	bb := bytes.NewBuffer([]byte{0xca, 0xfe, 0x00})
	if !guard(o, "ToSealedWriter", func() { wc, err = obj.ToSealedWriter(bb, ent.priv) }) && err == nil {
		o.Eval("C08")
		if !bytes.Equal(bb.Bytes()[3:], w.cbor) || !bytes.Equal(wc.Bytes(), harnessCID(w.cbor)) {
			o.Violate("C08", "stream-seal-cid", "ToSealedWriter into a bytes.Buffer that already holds bytes: the CID is not the hash of the token written", map[string]string{"sink": "bytes.Buffer"})
		}
	}
	reseed(e.t, e.seed, fmt.Sprint("seal", i))
	if guard(o, "ToDagJson", func() { w.json, err = obj.ToDagJson(ent.priv) }) {
		return
	}
	if err != nil {
		o.Violate("C07", "seal-failed", fmt.Sprintf("%s token cannot be encoded to DAG-JSON: %v", ts.Kind, err), map[string]string{"alg": alg, "type": ts.Kind, "codec": "dag-json"})
		w.json = nil
	}
	w.content = recOf(obj).Content()
	// what the WRITER forms of the encoders put out unseals / decodes to the same token (lossless
	// round trip through every encoder, not only the byte-slice ones)
	for _, api := range []string{"ToSealedWriter", "ToDagCborWriter", "ToDagJsonWriter"} {
		var buf bytes.Buffer
		var werr error
		reseed(e.t, e.seed, fmt.Sprint("seal", i))
		if guard(o, api, func() {
			switch api {
			case "ToSealedWriter":
				_, werr = obj.ToSealedWriter(&buf, ent.priv)
			case "ToDagCborWriter":
				werr = obj.ToDagCborWriter(&buf, ent.priv)
			default:
				werr = obj.ToDagJsonWriter(&buf, ent.priv)
			}
		}) || werr != nil {
			continue
		}
		if api == "ToDagJsonWriter" && w.json == nil {
			continue
		}
		dec := map[string]string{"ToSealedWriter": "typed.FromSealed", "ToDagCborWriter": "typed.FromDagCbor", "ToDagJsonWriter": "typed.FromDagJson"}[api]
		ref := w.cbor
		if api == "ToDagJsonWriter" {
			ref = w.json
		}
		o.Eval("C07")
		if bytes.Equal(buf.Bytes(), ref) {
			continue // same bytes as the byte-slice encoder: the round-trip monitor decides those
		}
		var dtk token.Token
		var derr error
		if guard(o, dec, func() { dtk, _, derr = runDecoder(dec, ts.Kind, buf.Bytes()) }) {
			continue
		}
		wattrs := map[string]string{"alg": alg, "type": ts.Kind, "api": api}
		if derr != nil || isNilTok(dtk) {
			o.Violate("C07", "decode-failed", fmt.Sprintf("what %s wrote (%d bytes, not the bytes of the byte-slice encoder) cannot be read back: %v", api, buf.Len(), derr), wattrs)
		} else if got := recOf(dtk).Content(); got != w.content {
			o.Violate("C07", "field-changed", fmt.Sprintf("what %s wrote reads back as another token: %s", api, diffRec(recOf(obj), recOf(dtk))), wattrs)
		}
	}
	w.issuer = ent.id.String()
	if e.pubs == nil {
		e.pubs = map[string]crypto.PubKey{}
	}
	e.pubs[w.issuer] = ent.priv.GetPublic()
	if e.ledger[w.issuer] == nil {
		e.ledger[w.issuer] = map[string]bool{}
	}
	e.ledger[w.issuer][w.content] = true
	if env, err := openEnvelope(w.cbor); err == nil {
		e.signed[string(env.sp.Encode())] = true
	}
	e.toks[i] = w
	o.Logf("token %d %s alg=%s cbor=%d json=%d", i, ts.Kind, alg, len(w.cbor), len(w.json))
	if i == 0 {
		e.argsReuse(ent)
	}
}

// argsReuse: ONE *args.Args serves two constructors (options built once, a token per request),
// each adding its own argument, and the caller keeps using its collection afterwards. Each token
// holds what it was given, whatever happens to the others and to the caller's collection.
func (e *wireExec) argsReuse(ent *keyEntry) {
	o := e.o
	for _, n := range []int{0, 1, 3, 5, 6, 7, 9} {
		common := args.New()
		want := map[string]int64{}
		for k := 0; k < n; k++ {
			key := fmt.Sprintf("c%d", k)
			if err := common.Add(key, int64(k)); err != nil {
				return
			}
			want[key] = int64(k)
		}
		var ta, tb *invocation.Token
		var ea, eb error
		var sealedA []byte
		var beforeA string
		if guard(o, "invocation.New(shared arguments)", func() {
			ta, ea = invocation.New(ent.id, ent.id, command.MustParse("/a"), nil, invocation.WithArguments(common), invocation.WithArgument("own-a", "A"), invocation.WithNonce(labelNonce("reuse-a", 12)))
			if ea == nil && ta != nil {
				sealedA, _, _ = ta.ToSealed(ent.priv)
				beforeA = recOf(ta).Content()
			}
			tb, eb = invocation.New(ent.id, ent.id, command.MustParse("/a"), nil, invocation.WithArguments(common), invocation.WithArgument("own-b", "B"))
		}) || ea != nil || eb != nil || ta == nil || tb == nil {
			continue
		}
		// the first token was sealed before the second one was built: it still is what it sealed to
		o.Eval("C07")
		if now := recOf(ta).Content(); now != beforeA {
			o.Violate("C07", "field-changed", "a sealed token changed when the Args it was built from served a second constructor", map[string]string{"where": "WithArguments(shared)"})
		} else if da, _, derr := invocation.FromSealed(sealedA); derr == nil && da != nil && recOf(da).Content() != recOf(ta).Content() {
			o.Violate("C07", "field-changed", "a token no longer agrees with its own sealed form after the Args it was built from served a second constructor", map[string]string{"where": "WithArguments(shared)"})
		}
		laterErr := common.Add("own-a", "caller")
		o.Eval("C10")
		o.Sig("C10", "args-reuse", n)
		holds := func(tk *invocation.Token, own, val, foreign string) string {
			cnt := 0
			for k, v := range tk.Arguments().Iter() {
				cnt++
				if k == own {
					if sv, err := v.AsString(); err != nil || sv != val {
						return fmt.Sprintf("its own argument %q reads %q", own, sv)
					}
					continue
				}
				if k == foreign {
					return fmt.Sprintf("it holds %q, which was given to the other token", foreign)
				}
				iv, err := v.AsInt()
				if w, ok := want[k]; !ok || err != nil || iv != w {
					return fmt.Sprintf("argument %q reads %v", k, iv)
				}
			}
			if cnt != n+1 {
				return fmt.Sprintf("it holds %d arguments, %d were given", cnt, n+1)
			}
			if _, err := tk.Arguments().GetNode(foreign); err == nil {
				return fmt.Sprintf("GetNode(%q) finds the other token's argument", foreign)
			}
			return ""
		}
		attrs := map[string]string{"where": "WithArguments(shared)", "n": fmt.Sprint(n)}
		if why := holds(ta, "own-a", "A", "own-b"); why != "" {
			o.Violate("C10", "argument-altered", "two tokens built from one shared Args: the first token: "+why, attrs)
			// (the same thing seen from the round trip: what the first token sealed to before the
			// second one existed no longer agrees with it)
			o.Violate("C07", "field-changed", "a token built from an Args that a second constructor used afterwards no longer agrees with itself: "+why, attrs)
			return
		}
		if why := holds(tb, "own-b", "B", "own-a"); why != "" {
			o.Violate("C10", "argument-altered", "two tokens built from one shared Args: the second token: "+why, attrs)
			return
		}
		cl := 0
		for range common.Iter() {
			cl++
		}
		if laterErr != nil || cl != n+1 {
			o.Violate("C10", "argument-altered", fmt.Sprintf("the caller's own Args after it served two constructors: Add of a fresh key: %v, %d entries (%d expected)", laterErr, cl, n+1), attrs)
			return
		}
	}
}

// ---- decoders

type accepted struct {
	dec string
	tk  token.Token
	cid cid.Cid
}

var cborDecoders = []string{"token.FromSealed", "typed.FromSealed", "other.FromSealed", "token.FromDagCbor", "typed.FromDagCbor", "token.Decode", "token.FromSealedReader", "typed.FromSealedReader", "token.FromDagCborReader", "typed.FromDagCborReader"}
var jsonDecoders = []string{"token.FromDagJson", "typed.FromDagJson", "other.FromDagJson", "token.FromDagJsonReader", "typed.FromDagJsonReader"}

func runDecoder(dec, kind string, data []byte) (tk token.Token, c cid.Cid, err error) {
	wrapD := func(d *delegation.Token, c cid.Cid, err error) (token.Token, cid.Cid, error) {
		if d == nil {
			return nil, c, err
		}
		return d, c, err
	}
	wrapI := func(i *invocation.Token, c cid.Cid, err error) (token.Token, cid.Cid, error) {
		if i == nil {
			return nil, c, err
		}
		return i, c, err
	}
	parts := strings.SplitN(dec, ".", 2)
	who, fn := parts[0], parts[1]
	if who == "other" {
		who = "typed"
		if kind == "dlg" {
			kind = "inv"
		} else {
			kind = "dlg"
		}
	}
	rd := func() *bytes.Reader { return bytes.NewReader(data) }
	switch who {
	case "token":
		switch fn {
		case "FromSealed":
			return token.FromSealed(data)
		case "FromSealedReader":
			return token.FromSealedReader(rd())
		case "FromDagCbor":
			tk, err = token.FromDagCbor(data)
		case "FromDagCborReader":
			tk, err = token.FromDagCborReader(rd())
		case "Decode":
			tk, err = token.Decode(data, dagcbor.Decode)
		case "FromDagJson":
			tk, err = token.FromDagJson(data)
		case "FromDagJsonReader":
			tk, err = token.FromDagJsonReader(rd())
		}
		return tk, cid.Undef, err
	default:
		if kind == "dlg" {
			switch fn {
			case "FromSealed":
				return wrapD(delegation.FromSealed(data))
			case "FromSealedReader":
				return wrapD(delegation.FromSealedReader(rd()))
			case "FromDagCbor":
				d, err := delegation.FromDagCbor(data)
				return wrapD(d, cid.Undef, err)
			case "FromDagCborReader":
				d, err := delegation.FromDagCborReader(rd())
				return wrapD(d, cid.Undef, err)
			case "FromDagJson":
				d, err := delegation.FromDagJson(data)
				return wrapD(d, cid.Undef, err)
			case "FromDagJsonReader":
				d, err := delegation.FromDagJsonReader(rd())
				return wrapD(d, cid.Undef, err)
			}
		}
		switch fn {
		case "FromSealed":
			return wrapI(invocation.FromSealed(data))
		case "FromSealedReader":
			return wrapI(invocation.FromSealedReader(rd()))
		case "FromDagCbor":
			i, err := invocation.FromDagCbor(data)
			return wrapI(i, cid.Undef, err)
		case "FromDagCborReader":
			i, err := invocation.FromDagCborReader(rd())
			return wrapI(i, cid.Undef, err)
		case "FromDagJson":
			i, err := invocation.FromDagJson(data)
			return wrapI(i, cid.Undef, err)
		case "FromDagJsonReader":
			i, err := invocation.FromDagJsonReader(rd())
			return wrapI(i, cid.Undef, err)
		}
	}
	return nil, cid.Undef, fmt.Errorf("unknown decoder %s", dec)
}

// offer hands data to decoders (all of them, or the first two when few is
// set) under the C09 guards and returns what was accepted. kind is the type the
// data claims to carry ("dlg"/"inv").
func (e *wireExec) offer(data []byte, codec, kind string, few, meter bool) []accepted {
	o := e.o
	decs := cborDecoders
	if codec == "json" {
		decs = jsonDecoders
	}
	if few {
		decs = decs[:3]
	}
	var out []accepted
	// every other offer is interleaved with decodes of the HONEST token the data was derived
	// from, as a service sees them: refused by the decoder of the other type, accepted by its own
	// (what one decode leaves behind must not help the next)
	e.offers++
	prelude := ""
	if e.cur != nil && !meter {
		prelude = []string{"", "other.FromSealed", "", "typed.FromSealed", "", "other.FromDagJson", "", "token.FromSealed"}[e.offers%8]
		if few && e.offers%32 >= 8 {
			prelude = "" // (the exhaustive enumerations offer to few decoders: a quarter of them is interleaved)
		}
	}
	for di, dec := range decs {
		var tk token.Token
		var c cid.Cid
		var err error
		if prelude != "" {
			hb := e.cur.cbor
			if strings.Contains(prelude, "Json") {
				hb = e.cur.json
			}
			if hb != nil {
				var htk token.Token
				var herr error
				guardT(o, prelude, len(hb), false, func() { htk, _, herr = runDecoder(prelude, e.cur.spec.Kind, hb) })
				if di == 0 && !strings.HasPrefix(prelude, "other.") {
					// ... and the honest token still reads as what it is, whatever was offered before
					// (held against the FIRST such decode of this token in the run, so that nothing is
					// assumed about what an honest token decodes to: that is the round-trip monitor's job)
					o.Eval("C07")
					res := "error"
					if herr == nil && !isNilTok(htk) {
						res = recOf(htk).Content()
					}
					if e.cur.base == nil {
						e.cur.base = map[string]string{}
					}
					if first, seen := e.cur.base[prelude]; !seen {
						e.cur.base[prelude] = res
					} else if first != res {
						o.Violate("C07", "decode-not-repeatable", fmt.Sprintf("%s gives another result for the same honest bytes after other (damaged) input was offered in between (first: error=%v, now: error=%v)", prelude, first == "error", res == "error"), map[string]string{"alg": e.cur.alg, "when": "interleaved"})
					}
				}
			}
		}
		keep := string(data)
		st := guardT(o, dec, len(data), meter, func() { tk, c, err = runDecoder(dec, kind, data) })
		if keep != string(data) {
			// (the bytes a decoder is given belong to the caller: the byte-slice and the stream form
			// of a decoder are interchangeable only if neither consumes its input)
			o.Violate("C18", "input-bytes-changed", dec+" changed the byte slice it was given", map[string]string{"api": dec})
			data = []byte(keep)
		}
		o.Eval("C09")
		if st.panicked || st.hung {
			continue
		}
		if err != nil {
			if !isNilTok(tk) {
				o.Violate("C10", "value-with-error", dec+" returned a token together with an error", nil)
			}
			continue
		}
		if isNilTok(tk) {
			o.Violate("C10", "nil-without-error", dec+" returned neither a token nor an error", nil)
			continue
		}
		// type discipline
		o.Eval("C10")
		_, isD := tk.(*delegation.Token)
		if strings.HasPrefix(dec, "other.") {
			o.Violate("C10", "type-confusion", fmt.Sprintf("%s accepted a %s envelope", dec, kind), map[string]string{"decoder": dec})
			continue
		}
		if (kind == "dlg") != isD {
			o.Violate("C10", "type-confusion", fmt.Sprintf("%s returned %T for a %s envelope", dec, tk, kind), map[string]string{"decoder": dec})
		}
		if strings.Contains(dec, "FromSealed") {
			o.Eval("C08")
			if !bytes.Equal(c.Bytes(), harnessCID(data)) {
				o.Violate("C08", "unseal-cid", dec+" reported a CID that is not the hash of the bytes it was given", nil)
			}
		}
		wellFormedDecoded(o, tk)
		out = append(out, accepted{dec, tk, c})
	}
	return out
}

// cloneIndependence: what a caller does to a writeable clone of a token's arguments or metadata
// (the documented way to derive new ones, and what an arguments hook works on) never shows in the
// token: same entries afterwards, the clone holds the addition.
func cloneIndependence(o *Outcome, tk token.Token, origin string) {
	before := recOf(tk).Content()
	o.Eval("C10")
	if inv, ok := tk.(*invocation.Token); ok {
		for round := 0; round < 2; round++ {
			cl := inv.Arguments().WriteableClone()
			if err := cl.Add("dsim-injected", "x"); err != nil {
				o.Violate("C10", "token-altered-through-clone", fmt.Sprintf("a fresh writeable clone of the arguments of a %s invocation refuses a new key (round %d): %v", origin, round, err), map[string]string{"origin": origin})
				return
			}
			if _, err := inv.Arguments().GetNode("dsim-injected"); err == nil {
				o.Violate("C10", "token-altered-through-clone", fmt.Sprintf("an argument added to a writeable clone shows up in the %s invocation itself", origin), map[string]string{"origin": origin})
				return
			}
		}
	}
	for round := 0; round < 2; round++ {
		mc := metaOf(tk).WriteableClone()
		if err := mc.Add("dsim-injected", "x"); err != nil {
			o.Violate("C10", "token-altered-through-clone", fmt.Sprintf("a fresh writeable clone of the metadata of a %s token refuses a new key (round %d): %v", origin, round, err), map[string]string{"origin": origin})
			return
		}
		if _, err := metaOf(tk).GetNode("dsim-injected"); err == nil {
			o.Violate("C10", "token-altered-through-clone", fmt.Sprintf("a metadata entry added to a writeable clone shows up in the %s token itself", origin), map[string]string{"origin": origin})
			return
		}
	}
	if after := recOf(tk).Content(); after != before {
		o.Violate("C10", "token-altered-through-clone", fmt.Sprintf("a %s token changed while writeable clones of its arguments / metadata were modified", origin), map[string]string{"origin": origin})
	}
}

// isNilTok: nil interface, or an interface holding a nil pointer (the generic
// decoders return the latter together with their error).
func isNilTok(tk token.Token) bool {
	switch t := tk.(type) {
	case nil:
		return true
	case *delegation.Token:
		return t == nil
	case *invocation.Token:
		return t == nil
	}
	return false
}

func validCommandModel(s string) bool {
	if !strings.HasPrefix(s, "/") {
		return false
	}
	if len(s) > 1 && strings.HasSuffix(s, "/") {
		return false
	}
	return s == strings.ToLower(s)
}

const maxSafe = int64(9007199254740991)

// intsInRange walks an IPLD node; false if it holds an integer beyond +/-(2^53-1).
func intsInRange(n datamodel.Node) bool {
	if n == nil {
		return true
	}
	switch n.Kind() {
	case datamodel.Kind_Int:
		v, err := n.AsInt()
		if err != nil {
			return false // beyond int64
		}
		return v <= maxSafe && v >= -maxSafe
	case datamodel.Kind_List:
		for it := n.ListIterator(); !it.Done(); {
			_, v, err := it.Next()
			if err != nil || !intsInRange(v) {
				return false
			}
		}
	case datamodel.Kind_Map:
		for it := n.MapIterator(); !it.Done(); {
			_, v, err := it.Next()
			if err != nil || !intsInRange(v) {
				return false
			}
		}
	}
	return true
}

// wellFormedDecoded is the decoder-side C10 monitor.
func wellFormedDecoded(o *Outcome, tk token.Token) {
	wellFormed(o, tk, "decoder")
	bad := func(what string) {
		o.Violate("C10", "ill-formed-decoder", what, map[string]string{"what": what})
	}
	inRange := func(t interface{ Unix() int64 }) bool {
		u := t.Unix()
		return u <= maxSafe && u >= -maxSafe
	}
	switch t := tk.(type) {
	case *delegation.Token:
		if !validCommandModel(t.Command().String()) {
			bad("decoded delegation with invalid command " + t.Command().String())
		}
		if t.NotBefore() != nil && !inRange(t.NotBefore()) {
			bad("decoded delegation with nbf outside +/-(2^53-1)")
		}
		if t.Expiration() != nil && !inRange(t.Expiration()) {
			bad("decoded delegation with exp outside +/-(2^53-1)")
		}
		if pn, err := t.Policy().ToIPLD(); err == nil && !intsInRange(pn) {
			bad("decoded delegation with a policy integer outside +/-(2^53-1)")
		}
	case *invocation.Token:
		if !validCommandModel(t.Command().String()) {
			bad("decoded invocation with invalid command " + t.Command().String())
		}
		if t.Expiration() != nil && !inRange(t.Expiration()) {
			bad("decoded invocation with exp outside +/-(2^53-1)")
		}
		if t.InvokedAt() != nil && !inRange(t.InvokedAt()) {
			bad("decoded invocation with iat outside +/-(2^53-1)")
		}
		for _, v := range t.Arguments().Iter() {
			if !intsInRange(v) {
				bad("decoded invocation with an argument integer outside +/-(2^53-1)")
				break
			}
		}
	}
}

// conservation is the C06 oracle: whatever a decoder returned must be content
// that the principal named as its issuer actually signed.
func (e *wireExec) conservation(acc []accepted, orig *wireTok, mutant []byte, kindOfMutation, class string, codec string) {
	o := e.o
	o.Eval("C06") // one mutant decided: rejected by every decoder it was offered to, or accepted and held against the ledger
	for _, a := range acc {
		rec := recOf(a.tk)
		content := rec.Content()
		o.Probe("mutants_accepted_by_a_decoder")
		if !e.ledger[rec.Iss][content] {
			o.Violate("C06", "forged-content-accepted", fmt.Sprintf("%s accepted a %s mutant (%s) whose content was never signed by its issuer: %s", a.dec, kindOfMutation, class, diffRec(recOf(orig.obj), rec)), map[string]string{"mutation": kindOfMutation, "alg": orig.alg})
			continue
		}
		ref := orig.cbor
		if codec == "json" {
			continue // DAG-JSON text is not content-addressed
		}
		// what was accepted must be, header and tag included, a SigPayload that was signed:
		// the harness takes the accepted bytes apart itself and compares the canonical form
		// of their signed part with the ledger of signed bytes
		if env, err := openEnvelope(mutant); err == nil {
			if !e.signed[string(semanticCanon(env.sp).Encode())] {
				o.Violate("C06", "unsigned-envelope-part-accepted", fmt.Sprintf("%s accepted a %s mutant (%s): the payload fields are as signed, but the signed part as a whole (varsig header, tag, entries) was never signed in this form", a.dec, kindOfMutation, class), map[string]string{"mutation": kindOfMutation, "alg": orig.alg})
				continue
			}
		}
		// ... and the signature element must be one the ISSUER's key made over that signed part
		// (checked with the key library directly, without any of go-ucan): a signature by somebody
		// else, in whatever encoding, over content the issuer did sign elsewhere is still a forgery
		if root, derr := cbDecodeAll(mutant); derr == nil && root.Major == 4 && len(root.Kids) == 2 && root.Kids[0].Major != 2 {
			o.Violate("C06", "signature-not-by-issuer", fmt.Sprintf("%s accepted a %s mutant (%s) whose signature element is not a byte string: nothing was there to verify", a.dec, kindOfMutation, class), map[string]string{"mutation": kindOfMutation, "alg": orig.alg})
			continue
		}
		if env, err := openEnvelope(mutant); err == nil {
			if pub := e.pubs[rec.Iss]; pub != nil {
				if ok, _ := pub.Verify(semanticCanon(env.sp).Encode(), env.sig.Data); !ok {
					o.Violate("C06", "signature-not-by-issuer", fmt.Sprintf("%s accepted a %s mutant (%s): content and signed part are as the issuer signed them, but the signature it carries does not verify under the issuer's key", a.dec, kindOfMutation, class), map[string]string{"mutation": kindOfMutation, "alg": orig.alg})
					// (no continue: the same bytes are also a second carrier of signed content, see below)
				}
			}
		}
		// same signed content under other bytes: canonicity (C08)
		// only the decoders that report a CID are bound by the canonicity clause
		if !bytes.Equal(mutant, ref) && content == orig.content && strings.Contains(a.dec, "FromSealed") {
			o.Eval("C08")
			o.Violate("C08", "noncanonical:"+strings.ReplaceAll(kindOfMutation, " ", "-"), fmt.Sprintf("%s accepted %s (%s): same signed content, other bytes, other CID", a.dec, kindOfMutation, class), map[string]string{"reencoding": kindOfMutation, "alg": orig.alg, "class": class})
		}
	}
}

// byteClass: which part of a sealed DAG-CBOR token an offset falls in.
func byteClass(env *envelope, off int) string {
	if env == nil {
		return "text"
	}
	switch {
	case off < env.sig.Off:
		return "framing"
	case off < env.sig.End:
		if off < env.sig.Off+3 && off < env.sig.End-len(env.sig.Data) {
			return "sig-head"
		}
		return "signature"
	case off < env.payload.Off:
		return "header"
	}
	// payload: key or value?
	for i := 0; i+1 < len(env.payload.Kids); i += 2 {
		k, v := env.payload.Kids[i], env.payload.Kids[i+1]
		if off >= k.Off && off < k.End {
			return "payload-key"
		}
		if off >= v.Off && off < v.End {
			return "payload-value:" + string(k.Data)
		}
	}
	return "payload"
}

func (e *wireExec) tok(i int) *wireTok {
	if i >= 0 && i < len(e.toks) && e.toks[i] != nil {
		return e.toks[i]
	}
	return e.toks[0]
}

func (e *wireExec) step(s *XStep) {
	o := e.o
	w := e.tok(s.Tok)
	e.cur = w
	defer func() { e.cur = nil }()
	codec := s.Codec
	if codec != "json" || w.json == nil {
		codec = "cbor"
	}
	data := w.cbor
	if codec == "json" {
		data = w.json
	}
	kind := w.spec.Kind
	var env *envelope
	if codec == "cbor" {
		env, _ = openEnvelope(w.cbor)
	}
	hiOf := func(n int) int {
		if s.Hi < 0 || s.Hi > n {
			return n
		}
		return s.Hi
	}
	// a negative Lo counts from the end; Stride > 1 visits every Stride-th position
	loOf := func(n int) int {
		if s.Lo < 0 {
			if n+s.Lo < 0 {
				return 0
			}
			return n + s.Lo
		}
		return s.Lo
	}
	stride := s.Stride
	if stride < 1 {
		stride = 1
	}
	// a complete enumeration asked of a token beyond 3000 bytes (a blob, a wide collection) is
	// done completely over its first and last 1000 bytes and with an odd stride in between (about
	// 1500 positions): pos says whether a position is visited
	sparse := s.Stride < 1 && s.Lo == 0 && s.Hi < 0 && len(data) > 3000
	visit := func(pos, n, unit int) bool {
		if !sparse || pos < 1000*unit || pos >= n-1000*unit {
			return true
		}
		st := (n / 1500) | 1
		return pos%st == 0
	}
	switch s.Op {
	case "roundtrip":
		e.roundtrip(w)
	case "flip_all":
		hi := hiOf(len(data)*8 - 1)
		for bit := loOf(len(data) * 8); bit <= hi; bit += stride {
			if !visit(bit, len(data)*8, 8) {
				continue
			}
			m := flipBit(data, bit)
			acc := e.offer(m, codec, kind, true, bit%64 == 0)
			cl := byteClass(env, bit/8)
			o.Fault("bitflip")
			o.Sig("C06", kind, w.alg, codec, "flip", cl, len(acc) > 0)
			o.Sig("C09", "decoder", codec, "flip", cl, len(acc) > 0)
			e.conservation(acc, w, m, "bit flip", fmt.Sprintf("bit %d, %s", bit, cl), codec)
		}
	case "trunc_all":
		hi := hiOf(len(data) - 1)
		for k := loOf(len(data)); k <= hi; k += stride {
			if !visit(k, len(data), 1) {
				continue
			}
			m := data[:k]
			acc := e.offer(m, codec, kind, true, false)
			o.Fault("truncation")
			o.Sig("C06", kind, w.alg, codec, "trunc", byteClass(env, k), len(acc) > 0)
			e.conservation(acc, w, m, "truncation", fmt.Sprintf("at %d", k), codec)
		}
	case "del_all":
		hi := hiOf(len(data) - 1)
		for k := loOf(len(data)); k <= hi; k += stride {
			if !visit(k, len(data), 1) {
				continue
			}
			m := append(append([]byte{}, data[:k]...), data[k+1:]...)
			acc := e.offer(m, codec, kind, true, false)
			o.Fault("byte_deletion")
			o.Sig("C06", kind, w.alg, codec, "delete", byteClass(env, k), len(acc) > 0)
			e.conservation(acc, w, m, "byte deletion", fmt.Sprintf("at %d", k), codec)
		}
	case "mutate":
		at := s.At % (len(data) + 1)
		var m []byte
		switch s.Kind {
		case "insert":
			m = append(append(append([]byte{}, data[:at]...), byte(s.Val)), data[at:]...)
		case "append":
			m = append(append([]byte{}, data...), byte(s.Val), byte(s.Val>>8))
		default: // subst
			if at == len(data) {
				at--
			}
			m = append([]byte{}, data...)
			m[at] = byte(s.Val)
		}
		if bytes.Equal(m, data) {
			return
		}
		acc := e.offer(m, codec, kind, false, true)
		o.Fault("byte_" + s.Kind)
		o.Sig("C06", kind, w.alg, codec, s.Kind, byteClass(env, at), len(acc) > 0)
		e.conservation(acc, w, m, "byte "+s.Kind, fmt.Sprintf("at %d", at), codec)
	case "sig":
		e.sigStep(s, w, env)
	case "field":
		e.fieldStep(s, w, env)
	case "jsonfield":
		e.jsonFieldStep(s, w)
	case "reencode":
		e.reencodeStep(s, w, env)
	case "byz":
		e.byzStep(s, w, env)
	case "hostile":
		e.hostileStep(s, w, env)
	case "argtype":
		e.argType(s)
	case "textmut":
		e.textMut(s)
	}
}

// textMut: the text-level decoders (policy from DAG-JSON, selectors, did:key
// strings) on inputs derived from the artefacts of this run by character-level
// mutation, and whatever they accept is then used (matching, selecting, key
// extraction).
func (e *wireExec) textMut(s *XStep) {
	o := e.o
	mutate1 := func(in string, pos int) string {
		b := []byte(in)
		if len(b) == 0 {
			return string([]byte{byte(s.Val)})
		}
		at := pos % len(b)
		switch s.Kind {
		case "insert":
			b = append(b[:at:at], append([]byte{byte(s.Val)}, b[at:]...)...)
		case "delete":
			b = append(b[:at:at], b[at+1:]...)
		case "dup":
			b = append(b[:at:at], append(append([]byte{}, b[at:]...), b[at:]...)...)
		default:
			b[at] = byte(s.Val)
		}
		return string(b)
	}
	// one to three mutations of the same kind at positions derived from the step
	mutate := func(in string) string {
		out := mutate1(in, s.At)
		for i := 1; i <= (s.At/1000+s.Val/16)%3 && len(out) < 4096; i++ {
			out = mutate1(out, s.At/(i+1)+i)
		}
		return out
	}
	// sweep: every single position (and, for short texts, every pair of positions) for the
	// step's mutation kind and byte, all inside one guarded call; a panic names its input
	sweep := func(entry, src string, use func(m string)) {
		cur := ""
		n := 0
		guardT(o, entry, len(src)+2, false, func() {
			defer func() {
				if r := recover(); r != nil {
					panic(fmt.Sprintf("%v [input %q]", r, cur))
				}
			}()
			for at := 0; at <= len(src); at++ {
				cur = mutate1(src, at)
				use(cur)
				n++
				if len(src) <= 14 {
					m1 := cur
					for at2 := 0; at2 <= len(m1); at2++ {
						cur = mutate1(m1, at2)
						use(cur)
						n++
					}
				}
			}
		})
		for i := 0; i < n; i += 64 {
			o.Eval("C09")
			o.Fault("text_mutation")
		}
	}
	// argument data to match / select against: the invocation's own arguments, if any
	var argNode datamodel.Node
	for _, w := range e.toks {
		if w != nil {
			if inv, ok := w.obj.(*invocation.Token); ok {
				argNode, _ = inv.Arguments().WriteableClone().ToIPLD()
			}
		}
	}
	if argNode == nil {
		argNode, _ = args.New().ToIPLD()
	}
	// a second, purpose-built argument value: long multi-byte strings, bytes, lists, nesting
	long := strings.Repeat("é", 40+s.At%70) + "ok"
	rich := cbMap(cbText("s"), cbText(long), cbText("n"), cbInt(7), cbText("l"), cbArray(cbInt(1), cbInt(2), cbInt(3), cbText(long), cbInt(5)),
		cbText("b"), cbBytes([]byte(long)), cbText("m"), cbMap(cbText("x"), cbInt(1), cbText("y"), cbText(long)), cbText("a"), cbText("日本語"+long),
		cbText("e"), cbText(""), cbText("el"), cbArray(), cbText("f"), cbFloat64(1.5)).Encode()
	var richNode datamodel.Node
	if n, err := ipld.Decode(rich, dagcbor.Decode); err == nil {
		richNode = n
	} else {
		richNode = argNode
	}
	if s.Val%2 == 0 {
		argNode, richNode = richNode, argNode
	}
	_ = richNode
	switch s.Field {
	case "policy":
		for _, w := range e.toks {
			if w == nil {
				continue
			}
			d, ok := w.obj.(*delegation.Token)
			if !ok {
				continue
			}
			pn, err := d.Policy().ToIPLD()
			if err != nil {
				continue
			}
			js, err := ipld.Encode(pn, dagjson.Encode)
			if err != nil {
				continue
			}
			sweep("policy.FromDagJson / Match (every position)", string(js), func(m string) {
				if pol, err := policy.FromDagJson(m); err == nil {
					pol.Match(argNode)
				}
			})
			m := mutate(string(js))
			var pol policy.Policy
			var perr error
			st := guardT(o, "policy.FromDagJson", len(m), true, func() { pol, perr = policy.FromDagJson(m) })
			o.Eval("C09")
			o.Fault("text_mutation")
			o.Sig("C09", "text", "policy", s.Kind, perr == nil)
			if st.panicked || st.hung || perr != nil {
				continue
			}
			guardT(o, "Policy.Match(after FromDagJson)", len(m), true, func() { pol.Match(argNode); pol.PartialMatch(argNode); _ = pol.String() })
			guardT(o, "Policy.ToIPLD(after FromDagJson)", len(m), false, func() {
				if n, err := pol.ToIPLD(); err == nil {
					_, _ = policy.FromIPLD(n)
				}
			})
		}
	case "selector":
		sels := []string{".", ".a", ".a.b", ".l[0]", ".l[-1]", ".l[1:3]", ".m.x?", ".l[]", ".s[0:2]", `.["a b"]`, ".a?.b?", ".l[:]", ".l[-9223372036854775808:9223372036854775807]",
			".s[0:]", ".s[1:]", ".s[-1:]", ".s[:-1]", ".s[-100:100]", ".s[5:2]", ".a[2:]", ".b[0:99]", ".b[-1]", ".b[1:]", ".l[9223372036854775807]", ".l[-9223372036854775808]", ".l[3:1]", ".l[-6]", ".l[5]",
			".m.y[1:]", ".l[3][-2:]", ".e[0:]", ".el[0]?", ".el[-1]?", ".s[-43:]", ".s[:41]",
			`.[""]`, `.["a"]`, `.m["x"]?`, `.["a"]["b"]`, `.["\""]`, `.["a\\b"]`, `.["]"]`, `.m[ "x" ]`, ".l[ 1 ]", ".l[1 : 2]", ".l[+1]", ".l[0x1]", ".l[1e2]", ".l[--1]", ".l[:]?", ".l[::]", "..", ".?", ".a??", ".[]", ".[]?", ".[][]"}
		for _, w := range e.toks {
			if w == nil || w.spec.Kind != "dlg" {
				continue
			}
			var walk func(ss []Stmt)
			walk = func(ss []Stmt) {
				for _, st := range ss {
					if st.Sel != "" {
						sels = append(sels, st.Sel)
					}
					walk(st.Kids)
				}
			}
			walk(w.spec.Dlg.Pol)
		}
		src := sels[s.At%len(sels)]
		sweep("selector.Parse / Select (every position)", src, func(m string) {
			if sel, err := selector.Parse(m); err == nil {
				_, _ = sel.Select(argNode)
				_ = sel.String()
			}
		})
		m := mutate(src)
		if s.Val%5 == 0 {
			m = src // also the unmutated, unusual forms
		}
		var sel selector.Selector
		var serr error
		st := guardT(o, "selector.Parse", len(m), true, func() { sel, serr = selector.Parse(m) })
		o.Eval("C09")
		o.Fault("text_mutation")
		o.Sig("C09", "text", "selector", s.Kind, serr == nil)
		if st.panicked || st.hung || serr != nil {
			return
		}
		guardT(o, "Selector.Select", len(m), true, func() { _, _ = sel.Select(argNode); _ = sel.String() })
		// and through a policy that uses it
		guardT(o, "Policy with mutated selector", len(m), false, func() {
			if pol, err := policy.Construct(policy.Equal(m, literal.Int(1)), policy.All(m, policy.Like(".", "a*")), policy.Any(m, policy.GreaterThan(".", literal.Int(0)))); err == nil {
				pol.Match(argNode)
				pol.PartialMatch(argNode)
			}
		})
	case "did":
		w := e.tok(s.Tok)
		sweep("did.Parse / PubKey (every position)", w.issuer, func(m string) {
			if d, err := did.Parse(m); err == nil {
				_, _ = d.PubKey()
				_ = d.String()
			}
		})
		m := mutate(w.issuer)
		var d did.DID
		var derr error
		st := guardT(o, "did.Parse", len(m), false, func() { d, derr = did.Parse(m) })
		o.Eval("C09")
		o.Fault("text_mutation")
		o.Sig("C09", "text", "did", s.Kind, w.alg, derr == nil)
		if st.panicked || st.hung || derr != nil {
			return
		}
		guardT(o, "DID.PubKey", len(m), true, func() { _, _ = d.PubKey(); _ = d.String() })
		guardT(o, "did.ToPubKey", len(m), false, func() { _, _ = did.ToPubKey(m) })
	}
}

// ---- C07 monitor

func (e *wireExec) roundtrip(w *wireTok) {
	o := e.o
	orig := recOf(w.obj)
	for _, codec := range []string{"cbor", "json"} {
		data := w.cbor
		name := "dag-cbor"
		if codec == "json" {
			data, name = w.json, "dag-json"
			if data == nil {
				continue
			}
		}
		attrs := map[string]string{"alg": w.alg, "codec": name, "type": w.spec.Kind, "integral_float": fmt.Sprint(w.intFlt), "invalid_utf8": fmt.Sprint(w.rawStr), "null_value": fmt.Sprint(hasTopLevelNull(w.obj))}
		decs := cborDecoders
		if codec == "json" {
			decs = jsonDecoders
		}
		var first *TokRec
		for _, dec := range decs {
			if strings.HasPrefix(dec, "other.") {
				continue
			}
			var tk token.Token
			var err error
			// first the same decoder on a transfer that broke off half way (it fails, as it must):
			// nothing of that may linger when the complete bytes arrive
			guardT(o, dec+" (interrupted transfer)", len(data), false, func() { _, _, _ = runDecoder(dec, w.spec.Kind, data[:len(data)/2]) })
			st := guardT(o, dec, len(data), false, func() { tk, _, err = runDecoder(dec, w.spec.Kind, data) })
			if st.panicked || st.hung {
				continue
			}
			o.Eval("C07")
			o.Sig("C07", w.spec.Kind, w.alg, name, dec, len(orig.Meta), len(orig.Args), orig.Nbf != "-", orig.Exp != "-", orig.Iat != "-", orig.Cause != "-", orig.Aud != "-", orig.Sub != "-", w.intFlt)
			if err != nil || isNilTok(tk) {
				o.Violate("C07", "unseal-failed", fmt.Sprintf("%s: %s token sealed by a %s key (%s) is not accepted back: %v", dec, w.spec.Kind, w.alg, name, err), attrs)
				break // one report per codec
			}
			rec := recOf(tk)
			if d := diffRec(orig, rec); d != "" {
				o.Violate("C07", "field-changed", fmt.Sprintf("%s (%s): %s", dec, name, d), attrs)
			}
			if strings.Contains(dec, "FromSealed") {
				// what was unsealed is sealed again by its issuer (buffered and streamed): the CID
				// reported is the hash of THOSE bytes, and unsealing them reports it too
				if iss := w.spec.iss(); iss >= 0 {
					priv := e.cast.ent(iss).priv
					var b2 []byte
					var c2 cid.Cid
					var e2 error
					if !guard(o, "ToSealed(after unseal)", func() { b2, c2, e2 = tk.ToSealed(priv) }) && e2 == nil {
						o.Eval("C08")
						o.Sig("C08", "reseal", w.spec.Kind, w.alg, dec)
						if !bytes.Equal(c2.Bytes(), harnessCID(b2)) {
							o.Violate("C08", "seal-cid", fmt.Sprintf("a token unsealed by %s and sealed again reports a CID that is not the hash of the bytes it returned", dec), map[string]string{"alg": w.alg})
						} else if _, c3, e3 := token.FromSealed(b2); e3 == nil && !bytes.Equal(c3.Bytes(), c2.Bytes()) {
							o.Violate("C08", "unseal-cid", "seal and unseal of the same bytes report different CIDs", nil)
						}
					}
					sw := newSimWriter(WriteFault{})
					var c4 cid.Cid
					if !guard(o, "ToSealedWriter(after unseal)", func() { c4, e2 = tk.ToSealedWriter(sw, priv) }) && e2 == nil {
						o.Eval("C08")
						if !bytes.Equal(c4.Bytes(), harnessCID(sw.Bytes())) {
							o.Violate("C08", "stream-seal-cid", fmt.Sprintf("a token unsealed by %s and sealed again through ToSealedWriter reports a CID that is not the hash of the bytes written", dec), map[string]string{"alg": w.alg})
						}
					}
				}
			}
			if first == nil {
				first = &rec
			} else if d := diffRec(*first, rec); d != "" {
				o.Violate("C07", "decoders-disagree", fmt.Sprintf("%s vs %s: %s", decs[0], dec, d), attrs)
			}
		}
	}
}

// ---- C06: signatures and headers

func (e *wireExec) sigStep(s *XStep, w *wireTok, env *envelope) {
	o := e.o
	if env == nil {
		return
	}
	m := &envelope{}
	*m = *env
	root := env.root.Clone()
	m.root, m.sig, m.sp = root, root.Kids[0], root.Kids[1]
	other := e.cast.ent(w.spec.iss() + 1 + s.Val%3)
	desc := s.Kind
	switch s.Kind {
	case "empty":
		m.sig.Data = []byte{}
	case "nonce_is_signed_part":
		// the genuine signature over the genuine signed part S, on an envelope whose payload is
		// rewritten and carries S itself as its nonce (the last field in canonical order): whoever
		// verifies over anything but the whole re-encoded signed part may find S in there
		genuineSP := append([]byte{}, env.sp.Encode()...)
		pl := payloadIn(m.sp)
		pl.MapSet("nonce", cbBytes(genuineSP))
		if s.Val%2 == 0 {
			pl.MapSet("aud", cbText(other.id.String()))
		}
		if len(genuineSP) > 60000 || s.Val%4 >= 2 {
			// (everything before the nonce small: the forged payload drops the large values)
			if pl.MapGet("meta") != nil {
				pl.MapSet("meta", cbMap())
			}
			if pl.MapGet("args") != nil {
				pl.MapSet("args", cbMap())
			}
		}
		desc = fmt.Sprintf("payload rewritten, nonce = the %d bytes of the genuine signed part, genuine signature", len(genuineSP))
	case "meta_huge_uint":
		// a rewritten payload under the genuine signature whose metadata holds an unsigned integer
		// beyond int64 (metadata integers are not bounded; some helpers of the codec choke on them)
		pl := payloadIn(m.sp)
		pl.MapSet("aud", cbText(other.id.String()))
		big := []*CB{cbUint(1 << 63), cbUint(math.MaxUint64), cbArray(cbInt(1), cbUint(1<<63)), cbMap(cbText("n"), cbUint(1<<63+1))}[s.Val%4]
		if mm := pl.MapGet("meta"); mm != nil && mm.Major == 5 {
			mm.MapSet("huge", big)
		} else {
			pl.MapSet("meta", cbMap(cbText("huge"), big))
		}
		desc = "payload rewritten (audience, metadata with an unsigned integer beyond int64), genuine signature"
	case "sig_shape":
		// the signature element is not a byte string but a LIST (of none, of the genuine signature,
		// of the genuine one and another), a map, a null: with the payload's nonce rewritten in
		// half of the cases, so that what is accepted was never signed
		genuine := append([]byte{}, m.sig.Data...)
		if s.Val%2 == 1 {
			payloadIn(m.sp).MapSet("nonce", cbBytes(labelNonce(fmt.Sprint("shape", s.Val), 12)))
		}
		shape := []*CB{cbArray(), cbArray(cbBytes(genuine)), cbArray(cbBytes(genuine), cbBytes([]byte{1})), cbMap(), cbNull(), cbArray(cbBytes(nil)), cbText("sig")}[s.Val/2%7]
		*m.sig = *shape
		desc = fmt.Sprintf("signature element of another shape (%d), payload rewritten: %v", s.Val/2%7, s.Val%2 == 1)
	case "trunc":
		n := s.At % (len(m.sig.Data) + 1)
		m.sig.Data = m.sig.Data[:n]
		desc = fmt.Sprintf("signature truncated to %d", n)
	case "other_key": // signed by another principal's key, iss unchanged
		sig, err := other.priv.Sign(m.sp.Encode())
		if err != nil {
			return
		}
		m.sig.Data = sig
	case "foreign_alt_sig":
		// the signed part untouched or with its nonce rewritten, under a signature made by a key
		// that is NOT the issuer's, in the encodings other libraries emit for the same curve:
		// 65-byte compact recoverable, 64-byte r||s, DER
		fk := dsecp.PrivKeyFromBytes(labelNonce(fmt.Sprint("foreign-secp-key", s.Val%5), 32))
		if s.Val%2 == 1 {
			payloadIn(m.sp).MapSet("nonce", cbBytes(labelNonce(fmt.Sprint("alt", s.Val), 12)))
		}
		h := sha256.Sum256(m.sp.Encode())
		switch s.Val / 2 % 4 {
		case 0:
			m.sig.Data = decdsa.SignCompact(fk, h[:], true)
		case 1:
			m.sig.Data = decdsa.SignCompact(fk, h[:], false)
		case 2:
			c := decdsa.SignCompact(fk, h[:], true)
			m.sig.Data = append([]byte{}, c[1:]...) // r||s
		default:
			m.sig.Data = decdsa.Sign(fk, h[:]).Serialize()
		}
		desc = fmt.Sprintf("signature by a foreign secp256k1 key, encoding %d, payload rewritten: %v", s.Val/2%4, s.Val%2 == 1)
	case "churn":
		// a long line of NEW principals passes through the decoders (each issues one honest token),
		// and after each of them the victim's token is offered again with its content rewritten and
		// signed by that newcomer's key: whatever the library remembers about principals (key
		// caches of any capacity up to a few hundred) must not make the victim's DID resolve to
		// somebody else's key
		victimDID := e.cast.ent(w.spec.iss()).id.String()
		n := 80 + (s.Val%3)*110
		reseed(e.t, e.seed, fmt.Sprint("churn", s.Val))
		for k := 1; k <= n; k++ {
			priv, id, kerr := did.GenerateEd25519()
			if kerr != nil {
				return
			}
			// the newcomer's own honest token goes through a decoder first
			if dummy, derr := delegation.Root(id, id, command.MustParse("/"), nil); derr == nil {
				if b, _, serr := dummy.ToSealed(priv); serr == nil {
					_, _, _ = token.FromSealed(b)
				}
			}
			f, oerr := openEnvelope(w.cbor)
			if oerr != nil {
				return
			}
			var hdr []byte = []byte{0x34, 0xed, 0x01, 0x71}
			for i := 0; i+1 < len(f.sp.Kids); i += 2 {
				if string(f.sp.Kids[i].Data) == f.tag {
					f.sp.Kids[i+1].MapSet("aud", cbText(id.String()))
				}
			}
			f.sp.MapSet("h", cbBytes(hdr))
			if f.resign(priv) != nil {
				return
			}
			data := f.bytes()
			acc := e.offer(data, "cbor", w.spec.Kind, true, false)
			if k%16 == 0 {
				o.Fault("sig_churn")
				o.Sig("C06", "churn", w.alg, k/64, len(acc) > 0)
			}
			e.conservation(acc, w, data, "content rewritten and signed by a newcomer's key, issuer unchanged", fmt.Sprintf("after %d new principals (victim %s)", k, victimDID[:16]), "cbor")
			if len(acc) > 0 {
				return
			}
		}
		// ... and after all of them the victim's HONEST token still reads as what it is, its
		// principals still print as themselves, and it seals to the same bytes (whatever the
		// library remembers of several hundred principals)
		o.Eval("C07")
		hattrs := map[string]string{"alg": w.alg, "when": "after-churn"}
		var htk token.Token
		var herr error
		guardT(o, "typed.FromSealed", len(w.cbor), false, func() { htk, _, herr = runDecoder("typed.FromSealed", w.spec.Kind, w.cbor) })
		if herr != nil || isNilTok(htk) {
			o.Violate("C07", "decode-not-repeatable", fmt.Sprintf("after %d other principals passed through the decoders, the honest token of the first one is refused: %v", n, herr), hattrs)
		} else if w.content != "" && recOf(htk).Content() != w.content && !w.intFlt && !w.rawStr && !hasTopLevelNull(w.obj) {
			o.Violate("C07", "field-changed", fmt.Sprintf("after %d other principals passed through the decoders, the honest token reads differently: %s", n, diffRec(recOf(w.obj), recOf(htk))), hattrs)
		}
		if now := recOf(w.obj).Content(); w.content != "" && now != w.content {
			o.Violate("C07", "field-changed", fmt.Sprintf("after %d other principals were handled, the constructed token itself prints differently", n), hattrs)
		}
		return
	case "did_url":
		// iss is a DID URL: the victim's identifier followed by a fragment / query / path that names
		// the attacker's key; header and signature are the attacker's own. Whoever resolves the key
		// from one part and the issuer from another accepts a token the victim never signed.
		var hdr []byte
		if dummy, derr := delegation.Root(other.id, other.id, command.MustParse("/"), nil); derr == nil {
			if b, _, serr := dummy.ToSealed(other.priv); serr == nil {
				if env2, oerr := openEnvelope(b); oerr == nil {
					for i := 0; i+1 < len(env2.sp.Kids); i += 2 {
						if string(env2.sp.Kids[i].Data) == "h" {
							hdr = env2.sp.Kids[i+1].Data
						}
					}
				}
			}
		}
		if hdr == nil {
			return
		}
		victim, attacker := e.cast.ent(w.spec.iss()).id.String(), other.id.String()
		if victim == attacker {
			return
		}
		tail := strings.TrimPrefix(attacker, "did:key:")
		if s.Val%2 == 1 {
			tail = attacker
		}
		iss := victim + []string{"#", "?", "/", ";", "#key="}[s.At%5] + tail
		if s.Val%7 == 6 {
			iss = attacker + "#" + strings.TrimPrefix(victim, "did:key:")
		}
		for i := 0; i+1 < len(m.sp.Kids); i += 2 {
			if string(m.sp.Kids[i].Data) == env.tag {
				m.sp.Kids[i+1].MapSet("iss", cbText(iss))
				m.sp.Kids[i+1].MapSet("aud", cbText(attacker))
			}
		}
		m.sp.MapSet("h", cbBytes(hdr))
		sig, err := other.priv.Sign(m.sp.Encode())
		if err != nil {
			return
		}
		m.sig.Data = sig
		desc = "issuer given as a DID URL naming another key"
	case "iss_swapped": // iss rewritten to another principal, old signature
		for i := 0; i+1 < len(m.sp.Kids); i += 2 {
			if string(m.sp.Kids[i].Data) == env.tag {
				m.sp.Kids[i+1].MapSet("iss", cbText(other.id.String()))
			}
		}
	case "foreign_header": // header of another algorithm
		hdrs := map[string][]byte{"ed25519": {0x34, 0xed, 0x01, 0x71}, "rsa": {0x34, 0x85, 0x24, 0x12, 0x80, 0x02, 0x71}, "secp256k1": {0x34, 0xe7, 0x01, 0x12, 0x71}, "ecdsa": {0x34, 0x80, 0xa4, 0xc0, 0x06, 0x12, 0x71}}
		names := []string{"ed25519", "rsa", "secp256k1", "ecdsa"}
		m.sp.MapSet("h", cbBytes(hdrs[names[s.Val%4]]))
	case "hostile_header":
		// a varsig header whose varints declare absurd sizes (an RSA header names its signature
		// length), with the real or a one-byte signature; nothing here is signed, the decoder has
		// only the issuer's key type to go by
		huge := []uint64{1 << 28, 1 << 31, 1 << 40, 1 << 50, 1<<63 - 1, 1<<64 - 1}[s.Val%6]
		var hdr []byte
		if s.At%2 == 0 && poolRSA {
			// an RSA issuer (any key of the pool) and the RSA header with the length rewritten
			rsa := key(normPrincipal(Principal{"rsa", s.At / 2})).id.String()
			for i := 0; i+1 < len(m.sp.Kids); i += 2 {
				if strings.HasPrefix(string(m.sp.Kids[i].Data), "ucan/") {
					m.sp.Kids[i+1].MapSet("iss", cbText(rsa))
				}
			}
			var vb bytes.Buffer
			vb.Write([]byte{0x34, 0x85, 0x24, 0x12})
			putUvarint(&vb, huge)
			vb.WriteByte(0x71)
			hdr = vb.Bytes()
		} else {
			// the token's own header with one of its varints rewritten
			var own []byte
			for i := 0; i+1 < len(m.sp.Kids); i += 2 {
				if string(m.sp.Kids[i].Data) == "h" {
					own = m.sp.Kids[i+1].Data
				}
			}
			var parts [][]byte
			for off := 0; off < len(own); {
				_, n, verr := getUvarint(own[off:])
				if verr != nil || n == 0 {
					break
				}
				parts = append(parts, own[off:off+n])
				off += n
			}
			if len(parts) == 0 {
				return
			}
			var vb bytes.Buffer
			for i, pt := range parts {
				if i == (s.At/2)%len(parts) {
					if s.Val%4 == 3 {
						// a varint that does not even fit 64 bits (ten continuation bytes and more)
						vb.Write([][]byte{bytes.Repeat([]byte{0xff}, 10), append(bytes.Repeat([]byte{0x80}, 9), 0x02), bytes.Repeat([]byte{0x80}, 16)}[s.Val/4%3])
						vb.WriteByte(0x01)
					} else {
						putUvarint(&vb, huge)
					}
				} else {
					vb.Write(pt)
				}
			}
			hdr = vb.Bytes()
		}
		m.sp.MapSet("h", cbBytes(hdr))
		if (s.Val/6)%2 == 0 {
			m.sig.Data = []byte{0x01}
		}
		data := m.root.Encode()
		acc := e.offer(data, "cbor", w.spec.Kind, false, true)
		o.Fault("hostile_header")
		o.Sig("C09", "hostile-header", w.alg, s.At%2, s.Val%6, len(acc) > 0)
		e.conservation(acc, w, data, "hostile varsig header", desc, "cbor")
		return
	case "alias_header":
		// the token's own varsig header with its algorithm and / or hash code replaced by a
		// relative (the next curve size, the next hash size, a neighbouring code), and the whole
		// signed part signed AFRESH by the issuer's real key (as always: over SHA-256 or whatever
		// the key library does): what the header announces is not what was done, no decoder may
		// accept it
		var own []byte
		for i := 0; i+1 < len(m.sp.Kids); i += 2 {
			if string(m.sp.Kids[i].Data) == "h" {
				own = m.sp.Kids[i+1].Data
			}
		}
		var parts []uint64
		for off := 0; off < len(own); {
			v, n, verr := getUvarint(own[off:])
			if verr != nil || n == 0 {
				break
			}
			parts = append(parts, v)
			off += n
		}
		if len(parts) < 3 {
			return
		}
		algs := []uint64{parts[1], 0xd01200, 0xd01201, 0xd01202, 0xd0ed, 0xd0e7, 0xd01205, parts[1] + 1, parts[1] - 1, 0xed, 0xe7, 0x1200, 0x1201, 0x1202}
		hashes := []uint64{parts[len(parts)-2], 0x12, 0x20, 0x13, 0x14, 0x15, 0x16, 0x1b, 0x00}
		np := append([]uint64{}, parts...)
		if s.Val < 16 {
			// the family first: every pairing of the ECDSA curve codes with the SHA-2 sizes, and
			// the own algorithm with each of them
			np[1] = []uint64{0xd01200, 0xd01201, 0xd01202, parts[1]}[s.Val/4]
			np[len(np)-2] = []uint64{0x12, 0x20, 0x13, 0x14}[s.Val%4]
		} else {
			np[1] = algs[s.Val%len(algs)]
			np[len(np)-2] = hashes[(s.Val/len(algs)+s.At)%len(hashes)]
		}
		var vb bytes.Buffer
		for _, v := range np {
			putUvarint(&vb, v)
		}
		if bytes.Equal(vb.Bytes(), own) {
			return
		}
		m.sp.MapSet("h", cbBytes(vb.Bytes()))
		sig, serr := e.cast.ent(w.spec.iss()).priv.Sign(m.sp.Encode())
		if serr != nil {
			return
		}
		m.sig.Data = sig
		desc = fmt.Sprintf("varsig header %x instead of %x, signed afresh by the issuer", vb.Bytes(), own)
	case "zero_hash":
		// content the issuer never signed (another audience) under a key-less signature that
		// verifies against an all-zero digest (NIST-curve issuers only)
		pub, perr := e.cast.ent(w.spec.iss()).id.PubKey()
		if perr != nil {
			return
		}
		der, raw, ok := zeroHashForgery(pub, int64(2+s.Val%5))
		if !ok {
			return
		}
		other := e.cast.ent(w.spec.iss() + 1 + s.Val%3).id.String()
		for i := 0; i+1 < len(m.sp.Kids); i += 2 {
			if strings.HasPrefix(string(m.sp.Kids[i].Data), "ucan/") {
				m.sp.Kids[i+1].MapSet("aud", cbText(other))
			}
		}
		m.sig.Data = der
		if s.At%2 == 1 {
			m.sig.Data = raw
		}
		desc = "signature valid for an all-zero digest"
	case "unknown_header":
		m.sp.MapSet("h", cbBytes([]byte{0x34, byte(s.Val), 0x71}))
	case "no_header":
		m.sp.MapDel("h")
	case "two_payloads":
		m.sp.Kids = append(m.sp.Kids, cbText("ucan/zzz@1"), cbMap())
		m.sp.sortCanonical()
	case "splice": // signature of token A on the payload of token B
		b := e.tok(1 - s.Tok)
		if b == w {
			return
		}
		benv, err := openEnvelope(b.cbor)
		if err != nil {
			return
		}
		m.sig.Data = benv.sig.Data
	default:
		return
	}
	data := m.root.Encode()
	if bytes.Equal(data, w.cbor) {
		return
	}
	acc := e.offer(data, "cbor", w.spec.Kind, false, false)
	o.Fault("sig_" + s.Kind)
	o.Sig("C06", w.spec.Kind, w.alg, "cbor", "sig:"+s.Kind, len(acc) > 0)
	e.conservation(acc, w, data, "signature/header manipulation", desc, "cbor")
}

// payloadIn: the payload map inside a (cloned) signed part.
func payloadIn(sp *CB) *CB {
	for i := 0; i+1 < len(sp.Kids); i += 2 {
		if strings.HasPrefix(string(sp.Kids[i].Data), "ucan/") && sp.Kids[i+1].Major == 5 {
			return sp.Kids[i+1]
		}
	}
	return &CB{Major: 5}
}

// ---- C06: field rewrites under the old signature

func (e *wireExec) fieldStep(s *XStep, w *wireTok, env *envelope) {
	o := e.o
	if env == nil {
		return
	}
	root := env.root.Clone()
	m, err := openEnvelopeTree(root)
	if err != nil {
		return
	}
	pl := m.payload
	other := e.cast.ent(w.spec.iss() + 1 + s.Val%3).id.String()
	f := s.Field
	switch f {
	case "iss", "aud", "sub":
		if s.How == "drop" {
			if !pl.MapDel(f) {
				return
			}
		} else {
			pl.MapSet(f, cbText(other))
		}
	case "cmd":
		pl.MapSet("cmd", cbText(Pick(NewRand(uint64(s.Val)), []string{"/", "/x", "/a/b/c/d"})))
	case "pol":
		if pl.MapGet("pol") == nil {
			return
		}
		pl.MapSet("pol", cbArray())
	case "args":
		if pl.MapGet("args") == nil {
			return
		}
		pl.MapSet("args", cbMap(cbText("n"), cbInt(int64(s.Val))))
	case "prf":
		if pl.MapGet("prf") == nil {
			return
		}
		pl.MapSet("prf", cbArray(cbLink(harnessCID([]byte{byte(s.Val)}))))
	case "nonce":
		pl.MapSet("nonce", cbBytes(labelNonce("forged", 12+s.Val%8)))
	case "meta":
		pl.MapSet("meta", cbMap(cbText("forged"), cbInt(int64(s.Val))))
	case "nbf", "exp", "iat":
		if s.How == "drop" {
			if !pl.MapDel(f) {
				return
			}
		} else {
			pl.MapSet(f, cbInt(int64(1_000_000+s.Val)))
		}
	case "cause":
		if s.How == "drop" {
			if !pl.MapDel(f) {
				return
			}
		} else {
			pl.MapSet(f, cbLink(harnessCID([]byte{byte(s.Val), 1})))
		}
	default:
		return
	}
	data := m.root.Encode()
	if bytes.Equal(data, w.cbor) {
		return
	}
	acc := e.offer(data, "cbor", w.spec.Kind, false, false)
	o.Fault("field_rewrite")
	o.Sig("C06", w.spec.Kind, w.alg, "cbor", "field:"+f+":"+s.How, len(acc) > 0)
	e.conservation(acc, w, data, "field rewrite with the old signature", f+" "+s.How, "cbor")
	// the same rewrite with the signed part the issuer really signed carried along in the
	// envelope (after, or before, the rewritten one): verification must not be over one
	// element while the token is built from another
	for i, pos := range []int{2, 1} {
		r3 := m.root.Clone()
		orig := env.root.Kids[1].Clone()
		if pos == 2 {
			r3.Kids = append(r3.Kids, orig)
		} else {
			r3.Kids = []*CB{r3.Kids[0], orig, r3.Kids[1]}
			continue // [sig, signed, rewritten] decodes to the signed content: C08's extra-element case
		}
		d3 := r3.Encode()
		acc3 := e.offer(d3, "cbor", w.spec.Kind, false, false)
		o.Fault("field_rewrite_carry")
		o.Sig("C06", w.spec.Kind, w.alg, "cbor", fmt.Sprintf("field+carry%d:%s:%s", i, f, s.How), len(acc3) > 0)
		e.conservation(acc3, w, d3, "field rewrite with the signed original carried in the envelope", f+" "+s.How, "cbor")
	}
}

// jsonFieldStep: the DAG-JSON form of a token taken apart as plain JSON, fields rewritten,
// set to null or added as explicit nulls, signature untouched.
func (e *wireExec) jsonFieldStep(s *XStep, w *wireTok) {
	o := e.o
	if w.json == nil {
		return
	}
	dec := json.NewDecoder(bytes.NewReader(w.json))
	dec.UseNumber()
	var root []any
	if err := dec.Decode(&root); err != nil || len(root) != 2 {
		return
	}
	sp, ok := root[1].(map[string]any)
	if !ok {
		return
	}
	var pl map[string]any
	for k, v := range sp {
		if strings.HasPrefix(k, "ucan/") {
			pl, _ = v.(map[string]any)
		}
	}
	if pl == nil {
		return
	}
	other := e.cast.ent(w.spec.iss() + 1 + s.Val%3).id.String()
	rewrite := func(f string) {
		switch f {
		case "cmd":
			pl["cmd"] = "/"
		case "iss", "aud", "sub":
			pl[f] = other
		case "nonce":
			pl["nonce"] = map[string]any{"/": map[string]any{"bytes": "AAAAAAAAAAAAAAAAAAAA"}}
		case "meta":
			pl["meta"] = map[string]any{"forged": json.Number(fmt.Sprint(s.Val))}
		case "args":
			pl["args"] = map[string]any{"n": json.Number(fmt.Sprint(s.Val))}
		case "pol":
			pl["pol"] = []any{}
		case "prf":
			pl["prf"] = []any{}
		case "exp", "nbf", "iat":
			pl[f] = json.Number(fmt.Sprint(4102444800 + s.Val))
		}
	}
	desc := s.Field + " " + s.How
	switch s.How {
	case "null": // the field itself becomes an explicit null
		pl[s.Field] = nil
	case "rewrite":
		rewrite(s.Field)
	case "rewrite+null": // a field rewritten, and ANOTHER optional field present as an explicit null
		rewrite(s.Field)
		opt := []string{"cause", "aud", "meta", "iat", "nonce", "sub", "nbf"}[s.At%7]
		if opt != s.Field {
			pl[opt] = nil
		}
		desc += " (" + opt + " null)"
	default:
		return
	}
	data, err := json.Marshal(root)
	if err != nil || bytes.Equal(data, w.json) {
		return
	}
	acc := e.offer(data, "json", w.spec.Kind, false, false)
	o.Fault("json_field_rewrite")
	o.Sig("C06", w.spec.Kind, w.alg, "json", "jsonfield:"+s.Field+":"+s.How, len(acc) > 0)
	e.conservation(acc, w, data, "DAG-JSON field rewrite with the old signature", desc, "json")
}

func openEnvelopeTree(root *CB) (*envelope, error) {
	return openEnvelope(root.Encode())
}

// ---- C08: data-preserving re-encodings in flight

func (e *wireExec) reencodeStep(s *XStep, w *wireTok, env *envelope) {
	o := e.o
	if env == nil {
		return
	}
	root := env.root.Clone()
	items := root.Items()
	var variants []struct {
		name, class string
		data        []byte
	}
	add := func(name, class string, r *CB) {
		d := r.Encode()
		if !bytes.Equal(d, w.cbor) {
			variants = append(variants, struct {
				name, class string
				data        []byte
			}{name, class, d})
		}
	}
	itemClass := func(c *CB) string {
		return []string{"uint", "nint", "bytes", "text", "array", "map", "tag", "simple"}[c.Major]
	}
	pick := func(ok func(*CB) bool) *CB {
		var cands []*CB
		for _, it := range items {
			if ok(it) {
				cands = append(cands, it)
			}
		}
		if len(cands) == 0 {
			return nil
		}
		return cands[s.At%len(cands)]
	}
	switch s.Kind {
	case "head_width":
		if it := pick(func(c *CB) bool { return c.Major <= 6 }); it != nil {
			wd := []int{1, 2, 4, 8}[s.Val%4]
			if wd > minimalWidth(headArg(it)) {
				it.Width = wd
				add("non-minimal head", itemClass(it), root)
			}
		}
	case "indef":
		if it := pick(func(c *CB) bool { return c.Major >= 2 && c.Major <= 5 }); it != nil {
			it.Indef = true
			add("indefinite length", itemClass(it), root)
		}
	case "perm_keys":
		if it := pick(func(c *CB) bool { return c.Major == 5 && len(c.Kids) >= 4 }); it != nil {
			n := len(it.Kids) / 2
			i, j := s.Val%n, (s.Val/n+1)%n
			if i != j {
				it.Kids[2*i], it.Kids[2*j] = it.Kids[2*j], it.Kids[2*i]
				it.Kids[2*i+1], it.Kids[2*j+1] = it.Kids[2*j+1], it.Kids[2*i+1]
				add("permuted map keys", "map", root)
			}
		}
	case "lex_all":
		// EVERY map of the token with its keys in another deterministic order at once: plain
		// bytewise order of the key text (not length-first), or that order reversed
		changed := false
		root.Walk(func(c *CB) {
			if c.Major != 5 || len(c.Kids) < 4 {
				return
			}
			n := len(c.Kids) / 2
			idx := make([]int, n)
			for i := range idx {
				idx[i] = i
			}
			sort.SliceStable(idx, func(a, b int) bool {
				ka, kb := string(c.Kids[2*idx[a]].Data), string(c.Kids[2*idx[b]].Data)
				if s.Val%2 == 1 {
					return ka > kb
				}
				return ka < kb
			})
			var kids []*CB
			for _, i := range idx {
				kids = append(kids, c.Kids[2*i], c.Kids[2*i+1])
				if i != len(kids)/2-1 {
					changed = true
				}
			}
			c.Kids = kids
		})
		if changed {
			add("permuted map keys", "every map", root)
		}
	case "float_width":
		if it := pick(func(c *CB) bool { return c.Major == 7 && c.Float == 64 }); it != nil {
			f := math.Float64frombits(it.Arg)
			if float64(float32(f)) == f {
				it.Float, it.Arg = 32, uint64(math.Float32bits(float32(f)))
				add("float64 as float32", "float", root)
			}
		}
	case "undef_null":
		if it := pick(func(c *CB) bool { return c.Major == 7 && c.Float == 0 && c.Arg == 22 }); it != nil {
			it.Arg = 23
			add("undefined for null", "null", root)
		}
	case "tag_wrap":
		if it := pick(func(c *CB) bool { return c.Major != 6 }); it != nil {
			cp := *it
			*it = CB{Major: 6, Arg: uint64(55799 + s.Val%3), Kids: []*CB{&cp}}
			add("wrapping tag", itemClass(&cp), root)
		}
	case "dup_key":
		if it := pick(func(c *CB) bool { return c.Major == 5 && len(c.Kids) >= 2 }); it != nil {
			it.Kids = append(it.Kids, it.Kids[0].Clone(), it.Kids[1].Clone())
			add("duplicated map key", "map", root)
		}
	case "signature":
		for name, sig := range sigVariants(w.alg, env.sig.Data) {
			r2 := env.root.Clone()
			r2.Kids[0].Data = sig
			add(name, "signature", r2)
		}
	case "extra_elem":
		// the envelope list carries more than [signature, signed part]: same signature, same
		// signed part, other bytes
		extras := []*CB{{Major: 7, Arg: 22}, {Major: 2, Data: []byte{}}, {Major: 3, Data: []byte("x")}, cbUint(0), env.root.Kids[1].Clone(), env.root.Kids[0].Clone(), {Major: 4}, {Major: 5}}
		r2 := env.root.Clone()
		r2.Kids = append(r2.Kids, extras[s.Val%len(extras)])
		if s.At%3 == 0 {
			r2.Kids = append(r2.Kids, extras[(s.Val/8)%len(extras)].Clone())
		}
		add("envelope list with extra elements", "framing", r2)
	case "trailing":
		d := append(append([]byte{}, w.cbor...), 0xf6)
		variants = append(variants, struct {
			name, class string
			data        []byte
		}{"trailing null item", "framing", d})
	}
	sort.Slice(variants, func(i, j int) bool { return variants[i].name < variants[j].name })
	for _, v := range variants {
		acc := e.offer(v.data, "cbor", w.spec.Kind, false, false)
		o.Fault("reencoding")
		o.Eval("C08")
		o.Sig("C08", s.Kind, v.name, v.class, w.alg, len(acc) > 0)
		e.conservation(acc, w, v.data, v.name, v.class, "cbor")
	}
}

func headArg(c *CB) uint64 {
	switch c.Major {
	case 2, 3:
		return uint64(len(c.Data))
	case 4:
		return uint64(len(c.Kids))
	case 5:
		return uint64(len(c.Kids) / 2)
	}
	return c.Arg
}

// ---- C10: byzantine signer enumerating payload-shape deviations

var dlgFields = []string{"iss", "aud", "sub", "cmd", "pol", "nonce", "meta", "nbf", "exp"}
var invFields = []string{"iss", "sub", "aud", "cmd", "args", "prf", "meta", "nonce", "exp", "iat", "cause"}

// fieldKind: the CBOR kind the schema wants for a field.
func fieldKind(kind, f string) string {
	switch f {
	case "iss", "aud", "sub", "cmd":
		return "text"
	case "nonce":
		return "bytes"
	case "meta", "args":
		return "map"
	case "pol", "prf":
		return "array"
	case "nbf", "exp", "iat":
		return "int"
	case "cause":
		return "link"
	}
	return "?"
}

func requiredField(kind, f string) bool {
	if kind == "dlg" {
		return inList([]string{"iss", "aud", "cmd", "pol", "nonce"}, f)
	}
	return inList([]string{"iss", "sub", "cmd", "args", "prf", "nonce"}, f)
}

func retypeValue(to string, v int) *CB {
	switch to {
	case "int":
		return cbInt(int64(v))
	case "text":
		return cbText("x")
	case "bytes":
		return cbBytes([]byte{1, 2, 3})
	case "bool":
		return cbBool(v%2 == 0)
	case "null":
		return cbNull()
	case "array":
		return cbArray(cbInt(1))
	case "map":
		return cbMap(cbText("k"), cbInt(1))
	case "float":
		return cbFloat64(1.5)
	case "empty-map":
		return cbMap()
	case "empty-array":
		return cbArray()
	case "empty-text":
		return cbText("")
	case "empty-bytes":
		return cbBytes([]byte{})
	case "link":
		return cbLink(harnessCID([]byte{byte(v)}))
	}
	return cbNull()
}

func (e *wireExec) byzStep(s *XStep, w *wireTok, env *envelope) {
	o := e.o
	if env == nil {
		return
	}
	m, err := openEnvelope(w.cbor)
	if err != nil {
		return
	}
	pl := m.payload
	kind := w.spec.Kind
	f := s.Field
	mustReject := false
	desc := f + " " + s.How
	offerKind := kind
	switch s.How {
	case "drop":
		if !pl.MapDel(f) {
			return
		}
		mustReject = requiredField(kind, f)
	case "unknown_key":
		pl.MapSet("zzz"+f, cbInt(int64(s.Val)))
		mustReject = true
	case "retype":
		if pl.MapGet(f) == nil && !requiredField(kind, f) {
			// optional and absent: add it with a wrong kind
		}
		to := s.Kind
		want := fieldKind(kind, f)
		if to == want || strings.TrimPrefix(to, "empty-") == want {
			return
		}
		pl.MapSet(f, retypeValue(to, s.Val))
		desc = f + " retyped to " + to
		// null is tolerated for optional / nullable fields; every other wrong kind must be rejected
		mustReject = to != "null" || requiredField(kind, f)
	case "range":
		// (just beyond the bound on either side, the extremes of int64 - MinInt64 has no negation -
		// and of the CBOR integer types)
		big := []*CB{cbUint(1 << 53), cbNint(1 << 53), cbUint(1<<63 - 1), cbUint(1 << 63), cbUint(math.MaxUint64), cbNint(math.MaxUint64), cbNint(1 << 63), cbNint(1<<53 - 1),
			cbNint(1<<63 - 1), cbNint(1<<63 - 2), cbUint(1 << 62), cbNint(1 << 62)}[s.Val%12]
		switch f {
		case "nbf", "exp", "iat":
			pl.MapSet(f, big)
		case "args":
			a := pl.MapGet("args")
			if a == nil || a.Major != 5 {
				return
			}
			switch s.Val / 12 % 6 {
			case 4:
				// far down: below 33 / 40 / 100 nested lists
				a.MapSet("huge", nestCB([]int{33, 40, 100}[s.Val%3], big, func(c *CB) *CB { return cbArray(cbInt(0), c) }))
			case 5:
				a.MapSet("huge", nestCB([]int{33, 40, 100}[s.Val%3], big, func(c *CB) *CB { return cbMap(cbText("k"), c) }))
			case 0:
				a.MapSet("huge", cbArray(cbMap(cbText("v"), big)))
			case 1:
				a.MapSet("huge", big) // top level
			case 2:
				a.MapSet("huge", cbArray(cbInt(1), cbInt(2), big)) // not the first element of a list
			default:
				a.MapSet("huge", cbMap(cbText("a"), cbInt(1), cbText("b"), cbMap(cbText("c"), cbArray(cbArray(big)))))
			}
		case "pol":
			if s.Val >= 72 {
				// ... or an integer of the policy that lives in a SELECTOR (an index, a slice bound),
				// written in decimal: beyond 2^53-1, beyond int64, and so long that a careless
				// accumulator wraps it back into range
				n := []string{"9007199254740992", "-9007199254740992", "9223372036854775808", "18446744073709551621", "-18446744073709551618", "36893488147419103237", "55340232221128654855", "99999999999999999999999999", "18446744073709551616"}[(s.Val-72)%9]
				sel := []string{".l[" + n + "]", ".[" + n + "]", ".l[" + n + ":]", ".l[1:" + n + "]", ".a.l[" + n + "]?", ".l[-" + strings.TrimPrefix(n, "-") + ":" + n + "]"}[(s.Val-72)/9%6]
				pl.MapSet("pol", cbArray(cbArray(cbText("=="), cbText(sel), cbInt(1))))
				big = cbText(sel)
			} else if s.Val/12 >= 4 {
				// the literal far down inside nested lists (33, 40, 100 levels)
				pl.MapSet("pol", cbArray(cbArray(cbText("=="), cbText(".a"), nestCB([]int{33, 40, 100}[s.Val%3], big, func(c *CB) *CB { return cbArray(c) }))))
			} else if s.Val/12%2 == 0 {
				pl.MapSet("pol", cbArray(cbArray(cbText("=="), cbText(".a"), big)))
			} else {
				pl.MapSet("pol", cbArray(cbArray(cbText("=="), cbText(".b"), cbInt(1)), cbArray(cbText("and"), cbArray(cbArray(cbText("any"), cbText(".l"), cbArray(cbText(">"), cbText("."), cbArray(cbInt(0), big)))))))
			}
		case "meta":
			pl.MapSet("meta", cbMap(cbText("huge"), big))
			mustReject = false // metadata integers are not bounded by the property
		default:
			return
		}
		if f != "meta" {
			mustReject = true
		}
		desc = fmt.Sprintf("%s out of range (%d/%d)", f, big.Major, big.Arg)
	case "undef_did":
		// a principal given as the text the UNDEFINED DID prints as (or a neighbour of it): no
		// decoder may hand out a token whose principal is undefined
		t := []string{"did:key:z", "did:key:", "did:key:z1", "did:key:Z", "did:", "did:key:z "}[s.Val%6]
		pl.MapSet(f, cbText(t))
		mustReject = true
		desc = fmt.Sprintf("%s given as %q", f, t)
	case "nonce_len":
		n := []int{0, 1, 11}[s.Val%3]
		pl.MapSet("nonce", cbBytes(labelNonce("short", n)))
		mustReject = true
		desc = fmt.Sprintf("nonce of %d bytes", n)
	case "bad_cmd":
		c := []string{"a/b", "/A", "/a/", "", "//", "/a//b", "/crud/\u00c9dit", "/\u0394/read", "/store/\u0414", "/a/B/c", "/stra\u1e9ee"}[s.Val%11]
		pl.MapSet("cmd", cbText(c))
		mustReject = !validCommandModel(c)
		desc = fmt.Sprintf("cmd %q", c)
	case "other_tag":
		// the payload under the other type's tag, or an unknown tag
		tags := []string{tagDlg, tagInv, "ucan/zzz@1.0.0", "ucan/", m.tag + "x", m.tag[:len(m.tag)-1], "ucan/dlg@1.0.0-rc.2", "UCAN/" + m.tag[5:], "ucan/dlg@2.0.0", "ucan/invoke@1", "ucan/inv", "ucan/dlg",
			m.tag + "+build.7", m.tag + "+", m.tag + "+" + tagInv, m.tag + "-rc.2", m.tag + " ", " " + m.tag, m.tag + "\x00", strings.ToUpper(m.tag), m.tag + "/", m.tag + "#1"}
		nt := tags[s.Val%len(tags)]
		if nt == m.tag {
			return
		}
		for i := 0; i+1 < len(m.sp.Kids); i += 2 {
			if string(m.sp.Kids[i].Data) == m.tag {
				m.sp.Kids[i].Data = []byte(nt)
			}
		}
		m.sp.sortCanonical()
		mustReject = true // a dlg payload never has the shape of an inv payload and vice versa
		if nt == tagDlg {
			offerKind = "dlg"
		} else if nt == tagInv {
			offerKind = "inv"
		}
		desc = "payload under tag " + nt
	case "sp_shape":
		third := func(key string, v *CB) {
			m.sp.Kids = append(m.sp.Kids, cbText(key), v)
			m.sp.sortCanonical()
			desc = fmt.Sprintf("SigPayload with a third entry %q", key)
		}
		otherTag, otherPayload := tagInv, cbMap(cbText("iss"), cbText(w.issuer))
		if m.tag == tagInv {
			otherTag = tagDlg
		}
		if o2 := e.tok(1 - s.Tok); o2 != w && o2.spec.Kind != w.spec.Kind {
			if env2, err := openEnvelope(o2.cbor); err == nil {
				otherPayload = env2.payload.Clone() // a complete, valid payload of the other type
			}
		}
		switch s.Val % 10 {
		case 0:
			m.sp.MapDel("h")
			desc = "SigPayload without header"
		case 1:
			m.sp.MapDel(m.tag)
			desc = "SigPayload without payload"
		case 2:
			third("x", cbInt(1)) // sorts between the header and the tag
		case 3:
			third("ucan/zzz@1", cbMap()) // a second, shorter tag
		case 4:
			third("zzzzzzzzzzzzzzzzzzzzzzzz", cbInt(1)) // sorts after the tag
		case 5:
			third(m.tag+"-extra", cbMap()) // sorts after the tag, looks like a tag
		case 6:
			third(otherTag, otherPayload) // one signature over a delegation and an invocation
		case 7:
			third("", cbNull()) // sorts before the header
		case 8:
			third("g", cbBytes([]byte{0x34})) // one-byte key before "h"
		default:
			third("ucan/zzzzzzzzzzzzzzz", cbMap()) // same length as the tag, bytewise greater
		}
		mustReject = true
	default:
		return
	}
	if err := m.resign(e.cast.ent(w.spec.iss()).priv); err != nil {
		return
	}
	data := m.bytes()
	acc := e.offer(data, "cbor", offerKind, false, true)
	o.Fault("byzantine_payload")
	o.Eval("C10")
	o.Sig("C10", kind, f, s.How, s.Kind, len(acc) > 0)
	o.Sig("C09", "byz", kind, f, s.How, s.Kind, len(acc) > 0)
	if mustReject && len(acc) > 0 {
		o.Violate("C10", "malformed-payload-accepted", fmt.Sprintf("%s accepted a correctly signed %s payload with %s", acc[0].dec, kind, desc), map[string]string{"field": f, "how": s.How})
	}
	// the same correctly signed envelope in its DAG-JSON form, for the DAG-JSON decoders
	if n, err := ipld.Decode(data, dagcbor.Decode); err == nil {
		if js, err := ipld.Encode(n, dagjson.Encode); err == nil {
			accJ := e.offer(js, "json", offerKind, false, false)
			o.Eval("C10")
			o.Sig("C10", kind, f, s.How, s.Kind, "json", len(accJ) > 0)
			if mustReject && len(accJ) > 0 {
				o.Violate("C10", "malformed-payload-accepted", fmt.Sprintf("%s accepted the DAG-JSON form of a correctly signed %s payload with %s", accJ[0].dec, kind, desc), map[string]string{"field": f, "how": s.How, "codec": "dag-json"})
			}
		}
	}
}

// ---- C09: hostile payloads behind a valid signature, hostile lengths, matching

func nestCB(depth int, leaf *CB, wrap func(*CB) *CB) *CB {
	c := leaf
	for i := 0; i < depth; i++ {
		c = wrap(c)
	}
	return c
}

func b58dec(s string) []byte {
	num := []byte{0}
	for i := 0; i < len(s); i++ {
		d := strings.IndexByte(b58Alphabet, s[i])
		if d < 0 {
			return nil
		}
		carry := d
		for j := len(num) - 1; j >= 0; j-- {
			carry += int(num[j]) * 58
			num[j] = byte(carry)
			carry >>= 8
		}
		for carry > 0 {
			num = append([]byte{byte(carry)}, num...)
			carry >>= 8
		}
	}
	for len(num) > 1 && num[0] == 0 {
		num = num[1:]
	}
	zeros := 0
	for zeros < len(s) && s[zeros] == '1' {
		zeros++
	}
	return append(make([]byte, zeros), num...)
}

// realDIDMangled: the genuine did:key bytes of a principal, cut or extended at
// byte level (cutting the base58 text is not byte-aligned).
func realDIDMangled(d string, v, at int) string {
	raw := b58dec(strings.TrimPrefix(d, "did:key:z"))
	if len(raw) < 3 {
		return d
	}
	pre := 2 // every supported multicodec prefix is a two-byte varint
	key := raw[pre:]
	switch v % 5 {
	case 0: // cut the key material
		key = key[:at%(len(key)+1)]
	case 1: // a few bytes only
		key = key[:at%5%(len(key)+1)]
	case 2: // extended
		key = append(append([]byte{}, key...), byte(at), byte(v))
	case 3: // DER-looking stubs (RSA is the only variable-length key)
		key = [][]byte{{0x30, 0x82}, {0x30, 0x00}, {0x30, 0x82, 0x01, 0x0a}, {0x30, 0xff, 0x02, 0x02}, {0x30}, {0x30, 0x0a}, {0x02, 0x01}}[at%7]
	default: // one byte changed
		key = append([]byte{}, key...)
		if len(key) > 0 {
			key[at%len(key)] ^= byte(1 << uint(v%8))
		}
	}
	return "did:key:z" + b58(append(append([]byte{}, raw[:pre]...), key...))
}

func badDID(alg string, v int) string {
	// multicodec prefix + key material that is not a valid key
	var raw []byte
	junk := func(n int) []byte {
		b := make([]byte, n)
		for i := range b {
			b[i] = byte(v + i*7)
		}
		return b
	}
	switch alg {
	case "ed25519":
		raw = append([]byte{0xed, 0x01}, junk(31)...)
	case "p256":
		raw = append([]byte{0x80, 0x24, 0x02}, junk(32)...)
	case "p384":
		raw = append([]byte{0x81, 0x24, 0x03}, junk(48)...)
	case "p521":
		raw = append([]byte{0x82, 0x24, 0x02}, junk(66)...)
	case "secp256k1":
		raw = append([]byte{0xe7, 0x01, 0x05}, junk(32)...)
	case "rsa":
		raw = append([]byte{0x85, 0x24}, junk(40)...)
	case "rsa-small", "rsa-huge", "rsa-e1":
		// well-formed PKCS#1 DER whose numbers no sane verifier takes: a modulus of 1024 (512) bits,
		// of 8200 bits, a public exponent of 1
		bits, exp := []int{1024, 512, 2040}[v%3], []byte{0x01, 0x00, 0x01}
		switch alg {
		case "rsa-huge":
			bits = []int{8200, 16384}[v%2]
		case "rsa-e1":
			bits, exp = 2048, []byte{0x01}
		}
		n := junk(bits / 8)
		n[0] |= 0x80
		n[len(n)-1] |= 1
		derLen := func(l int) []byte {
			switch {
			case l < 128:
				return []byte{byte(l)}
			case l < 256:
				return []byte{0x81, byte(l)}
			}
			return []byte{0x82, byte(l >> 8), byte(l)}
		}
		der := func(tag byte, body []byte) []byte {
			return append(append([]byte{tag}, derLen(len(body))...), body...)
		}
		body := append(der(0x02, append([]byte{0x00}, n...)), der(0x02, exp)...)
		raw = append([]byte{0x85, 0x24}, der(0x30, body)...)
	case "undef-text":
		// what the undefined DID prints as, and its neighbours
		return []string{"did:key:z", "did:key:", "did:key:z1", "did:key:Z", "did:", "did:key:z "}[v%6]
	case "x25519":
		raw = append([]byte{0xec, 0x01}, junk(32)...)
	default:
		raw = junk(3)
	}
	return "did:key:z" + b58(raw)
}

const b58Alphabet = "123456789ABCDEFGHJKLMNPQRSTUVWXYZabcdefghijkmnopqrstuvwxyz"

func b58(b []byte) string {
	zeros := 0
	for zeros < len(b) && b[zeros] == 0 {
		zeros++
	}
	num := append([]byte{}, b...)
	var out []byte
	for start := zeros; start < len(num); {
		rem := 0
		for i := start; i < len(num); i++ {
			acc := rem*256 + int(num[i])
			num[i] = byte(acc / 58)
			rem = acc % 58
		}
		out = append(out, b58Alphabet[rem])
		if num[start] == 0 {
			start++
		}
	}
	for i := 0; i < zeros; i++ {
		out = append(out, '1')
	}
	for i, j := 0, len(out)-1; i < j; i, j = i+1, j-1 {
		out[i], out[j] = out[j], out[i]
	}
	return string(out)
}

func (e *wireExec) hostileStep(s *XStep, w *wireTok, env *envelope) {
	o := e.o
	if env == nil {
		return
	}
	m, err := openEnvelope(w.cbor)
	if err != nil {
		return
	}
	pl := m.payload
	kind := w.spec.Kind
	depth := s.Depth
	if depth <= 0 {
		depth = 100
	}
	resign := true
	switch s.Kind {
	case "deep_value": // deep nesting in args / meta
		f := "meta"
		if kind == "inv" && s.Val%2 == 0 {
			f = "args"
		}
		wrap := func(c *CB) *CB { return cbArray(c) }
		if s.Val%3 == 0 {
			wrap = func(c *CB) *CB { return cbMap(cbText("k"), c) }
		}
		pl.MapSet(f, cbMap(cbText("deep"), nestCB(depth, cbInt(1), wrap)))
	case "deep_policy":
		if kind != "dlg" {
			return
		}
		leaf := cbArray(cbText("=="), cbText(".a"), cbInt(1))
		// the innermost statement well-formed, or malformed in a way whose report names the path
		// to it (unknown operator, wrong shape, bad selector, bad pattern, an integer out of range)
		switch s.Val / 3 % 7 {
		case 1:
			leaf = cbArray(cbText("zz"), cbText(".a"), cbInt(1))
		case 2:
			leaf = cbArray(cbText("=="), cbText(".a"))
		case 3:
			leaf = cbArray(cbText("=="), cbText("a..b["), cbInt(1))
		case 4:
			leaf = cbArray(cbText("like"), cbText(".a"), cbText("a\\"))
		case 5:
			leaf = cbArray(cbText("=="), cbText(".a"), cbUint(1<<53))
		case 6:
			leaf = cbInt(7)
		}
		var wrap func(c *CB) *CB
		switch s.Val % 3 {
		case 0:
			wrap = func(c *CB) *CB { return cbArray(cbText("not"), c) }
		case 1:
			wrap = func(c *CB) *CB { return cbArray(cbText("and"), cbArray(c)) }
		default:
			wrap = func(c *CB) *CB { return cbArray(cbText("all"), cbText(".x"), c) }
		}
		pl.MapSet("pol", cbArray(nestCB(depth, leaf, wrap)))
	case "odd_operator":
		// a policy whose operator is not one of the language: every length from 0 to 14 ASCII
		// bytes followed by a 1-, 2-, 3- or 4-byte character (or nothing, or more text), long ones,
		// invalid UTF-8; as a 2- and 3-element statement, at top level and nested
		if kind != "dlg" {
			return
		}
		tails := []string{"", "e", "\u00e9", "\u20ac", "\U0001f512", "\u00e9\u00e9\u00e9", "\xc3", "\xff\xfe"}
		op := strings.Repeat("a", s.At%15) + tails[s.Val%len(tails)]
		switch (s.Val / len(tails)) % 4 {
		case 1:
			op += strings.Repeat("z", 100)
		case 2:
			op = strings.Repeat("\u20ac", 1+s.At%6)
		case 3:
			op = strings.ToUpper(op) + "=="
		}
		st := cbArray(cbText(op), cbText(".a"), cbInt(1))
		switch (s.Val / 32) % 4 {
		case 1:
			st = cbArray(cbText(op), cbText(".a"))
		case 2:
			st = cbArray(cbText("not"), st)
		case 3:
			st = cbArray(cbText("any"), cbText(".l"), cbArray(cbText("and"), cbArray(st)))
		}
		pl.MapSet("pol", cbArray(st))
		// and straight into the policy decoders
		polBytes := cbArray(st).Encode()
		guardT(o, "policy.FromIPLD(odd operator)", len(polBytes), false, func() {
			if n, err := ipld.Decode(polBytes, dagcbor.Decode); err == nil {
				_, _ = policy.FromIPLD(n)
				if js, err := ipld.Encode(n, dagjson.Encode); err == nil {
					_, _ = policy.FromDagJson(string(js))
				}
			}
		})
	case "bad_did":
		algs := []string{"ed25519", "p256", "p384", "p521", "secp256k1", "rsa", "x25519", "junk", "rsa-small", "rsa-huge", "rsa-e1", "undef-text", "undef-text"}
		d := badDID(algs[s.Val%len(algs)], s.At)
		// such an identifier is met more than once in a process: resolving it again gives the same
		// answer (an error, or the same key), never a panic
		for rep := 0; rep < 2; rep++ {
			guardT(o, "did.Parse / PubKey (hostile did:key)", len(d), false, func() {
				if x, err := did.Parse(d); err == nil {
					if pk, perr := x.PubKey(); perr == nil && pk == nil {
						o.Violate("C10", "nil-without-error", "DID.PubKey returned neither a key nor an error for "+algs[s.Val%len(algs)], nil)
					}
				}
			})
		}
		if s.Depth%2 == 1 {
			// a real principal's identifier, mangled
			pr := e.cast[(s.Val/8)%len(e.cast)]
			d = realDIDMangled(key(pr).id.String(), s.Val, s.At)
		}
		f := s.Field
		if f == "" {
			f = "aud"
		}
		pl.MapSet(f, cbText(d))
	case "hostile_len": // a head that declares far more than is there; signature irrelevant
		resign = false
		items := m.root.Items()
		var cands []*CB
		for _, it := range items {
			if it.Major >= 2 && it.Major <= 5 {
				cands = append(cands, it)
			}
		}
		if len(cands) == 0 {
			return
		}
		it := cands[s.At%len(cands)]
		raw := append([]byte{}, w.cbor...)
		head := []byte{it.Major<<5 | 27, 0, 0, 0, 0x7f, 0xff, 0xff, 0xff, 0xff}
		if s.Val%2 == 0 {
			head = []byte{it.Major<<5 | 26, 0x7f, 0xff, 0xff, 0xff}
		}
		hl := 1 + minimalWidth(headArg(it))
		data := append(append(append([]byte{}, raw[:it.Off]...), head...), raw[it.Off+hl:]...)
		acc := e.offer(data, "cbor", kind, false, true)
		o.Fault("hostile_length")
		o.Sig("C09", "hostile_len", it.Major, s.Val%2, len(acc) > 0)
		e.conservation(acc, w, data, "hostile declared length", "", "cbor")
		return
	case "match": // policy matching against arbitrary argument data
		e.matchHostile(s)
		return
	case "envelope": // envelopes of hostile shape (nothing here can carry a valid signature)
		pay := m.payload.Clone()
		shapes := []*CB{
			cbArray(cbBytes([]byte{1})), // one element
			cbArray(),                   // none
			cbArray(cbBytes([]byte{1}), cbArray(cbInt(1))),                                                               // second element not a map
			cbArray(cbBytes([]byte{1}), cbInt(1)),                                                                        // ... a scalar
			cbArray(cbText("sig"), cbMap(cbText("h"), cbBytes([]byte{0x34}), cbText(m.tag), pay)),                        // signature not bytes
			cbArray(cbBytes([]byte{1}), &CB{Major: 5, Kids: []*CB{cbInt(1), cbBytes([]byte{0x34}), cbText(m.tag), pay}}), // key not a string
			cbArray(cbBytes([]byte{1}), cbMap(cbText("h"), cbText("notbytes"), cbText(m.tag), pay)),
			cbArray(cbBytes([]byte{1}), cbMap(cbText("h"), cbBytes([]byte{0x34}), cbText(m.tag), cbInt(1))), // payload not a map
			cbArray(cbBytes([]byte{1}), cbMap(cbText("h"), cbBytes([]byte{0x34}), cbText(m.tag), cbMap(cbText("iss"), cbInt(1)))),
			cbArray(cbBytes([]byte{1}), cbMap(cbText("h"), cbBytes([]byte{0x34}), cbText(m.tag), cbMap())),
			cbMap(cbText("a"), cbInt(1)),
			cbInt(7),
			cbArray(cbBytes([]byte{1}), cbMap(cbText("h"), cbBytes([]byte{0x34}), cbText(m.tag), pay), cbInt(3)), // three elements
			cbArray(cbNull(), cbNull()),
			cbArray(cbBytes(nil), cbMap()),
		}
		data := shapes[s.Val%len(shapes)].Encode()
		acc := e.offer(data, "cbor", kind, false, true)
		o.Fault("hostile_envelope")
		o.Sig("C09", "envelope", s.Val%len(shapes), len(acc) > 0)
		if len(acc) > 0 {
			o.Violate("C06", "forged-content-accepted", "a decoder accepted an envelope of hostile shape that nobody signed", map[string]string{"mutation": "hostile envelope"})
		}
		return
	case "glob": // attacker-chosen like patterns against attacker-chosen strings
		pats := []string{"*a*a*a*a*a*a*a*a*a*a*a*a*a*a*a*a*b", "a*a*a*a*a*a*a*a*a*a*a*a*a*a*a*a*a*a*a*c", "**", "*", "", "\\*", "a\\", "*\\**", "\\a*", strings.Repeat("*a", 40) + "b", strings.Repeat("*", 200), "a*" + strings.Repeat("\\*", 30)}
		strs := []string{"", strings.Repeat("a", 40), strings.Repeat("a", 400), strings.Repeat("a", 3000), "*", "\\", strings.Repeat("ab", 500), strings.Repeat("*", 100)}
		pat, str := pats[s.Val%len(pats)], strs[s.At%len(strs)]
		js := fmt.Sprintf(`[["like", ".s", %q], ["any", ".l", ["like", ".", %q]], ["not", ["like", ".s", %q]]]`, pat, pat, pat)
		argRaw := cbMap(cbText("s"), cbText(str), cbText("l"), cbArray(cbText(str), cbText(str+"b"), cbInt(1))).Encode()
		argNode, aerr := ipld.Decode(argRaw, dagcbor.Decode)
		if aerr != nil {
			return
		}
		var pol policy.Policy
		var perr error
		st := guardT(o, "policy.FromDagJson(glob)", len(js), false, func() { pol, perr = policy.FromDagJson(js) })
		o.Eval("C09")
		o.Fault("hostile_glob")
		o.Sig("C09", "glob", s.Val%len(pats), s.At%len(strs), perr == nil)
		if st.panicked || st.hung || perr != nil {
			return
		}
		guardT(o, "Policy.Match(glob)", len(js)+len(argRaw), true, func() { pol.Match(argNode); pol.PartialMatch(argNode) })
		return
	default:
		return
	}
	if resign {
		if err := m.resign(e.cast.ent(w.spec.iss()).priv); err != nil {
			return
		}
	}
	data := m.bytes()
	acc := e.offer(data, "cbor", kind, false, true)
	o.Fault("hostile_payload")
	o.Sig("C09", "hostile", kind, s.Kind, s.Field, s.Val%8, depth, len(acc) > 0)
	// what was accepted is then used: accessors, printing, re-sealing, authorisation
	for _, a := range acc {
		a := a
		guardT(o, "use-after-accept:"+a.dec, len(data), true, func() {
			// (printing is not an untrusted-input entry point of the property and is left out)
			switch t := a.tk.(type) {
			case *delegation.Token:
				if n, err := t.Policy().ToIPLD(); err == nil {
					_, _ = ipld.Encode(n, dagcbor.Encode)
					if an, err := args.New().ToIPLD(); err == nil {
						t.Policy().Match(an)
					}
				}
			case *invocation.Token:
				_ = t.ExecutionAllowed(emptyLoader{})
				_ = t.IsValidNow()
			}
		})
		break
	}
}

type emptyLoader struct{}

func (emptyLoader) GetDelegation(c cid.Cid) (*delegation.Token, error) {
	return nil, delegation.ErrDelegationNotFound
}

// matchHostile: a decoded policy (from a correctly signed delegation) matched
// against argument data of every kind, including integers beyond int64.
func (e *wireExec) matchHostile(s *XStep) {
	o := e.o
	// find a delegation among the tokens
	var d *delegation.Token
	for _, w := range e.toks {
		if w != nil {
			if x, ok := w.obj.(*delegation.Token); ok {
				d = x
			}
		}
	}
	if d == nil {
		return
	}
	vals := []*CB{cbUint(1 << 63), cbUint(math.MaxUint64), cbNint(math.MaxUint64), cbInt(5), cbText("x"), cbFloat64(math.Inf(1)), cbFloat64(math.NaN()), cbNull(), cbBytes([]byte{1}), cbArray(cbUint(1<<63), cbInt(1)), cbMap(cbText("x"), cbUint(1<<63)),
		cbNint(1<<63 - 1), cbNint(1<<53 - 1), cbUint(1 << 53), cbUint(1<<63 - 1), cbArray(cbInt(1), cbNint(1<<63-1)), cbMap(cbText("a"), cbText("t"), cbText("b"), cbNint(1<<63-1))}
	v := vals[s.Val%len(vals)]
	kv := []*CB{}
	for _, k := range []string{"n", "s", "l", "m", "f", "b", "a", "big"} {
		kv = append(kv, cbText(k), v.Clone())
	}
	raw := cbMap(kv...).Encode()
	var node datamodel.Node
	var err error
	st := guardT(o, "ipld.Decode(args)", len(raw), false, func() { node, err = ipld.Decode(raw, dagcbor.Decode) })
	if st.panicked || st.hung || err != nil {
		return
	}
	pol := d.Policy()
	guardT(o, "Policy.Match", len(raw), true, func() { pol.Match(node) })
	guardT(o, "Policy.PartialMatch", len(raw), false, func() { pol.PartialMatch(node) })
	o.Eval("C09")
	o.Sig("C09", "match", s.Val%len(vals), len(pol))
	// purpose-built pairs: an == statement whose literal has the SAME SHAPE as the hostile data down
	// to the hostile item (a scalar sibling before it in a map, an element before it in a list),
	// hostile item in the data with a benign policy, and in the policy with benign data
	shape := func(leaf *CB) *CB {
		return cbMap(cbText("m"), cbMap(cbText("aa"), cbText("t"), cbText("zz"), leaf.Clone()),
			cbText("l"), cbArray(cbText("t"), leaf.Clone()),
			cbText("d"), cbMap(cbText("k"), cbMap(cbText("name"), cbText("report"), cbText("size"), leaf.Clone())))
	}
	hostile, benign := shape(v), shape(cbInt(1024))
	polFor := func(lit *CB) *CB {
		return cbArray(
			cbArray(cbText("=="), cbText(".m"), lit.MapGet("m").Clone()),
			cbArray(cbText("=="), cbText(".l"), lit.MapGet("l").Clone()),
			cbArray(cbText("=="), cbText(".d.k"), lit.MapGet("d").MapGet("k").Clone()),
			cbArray(cbText("any"), cbText(".l"), cbArray(cbText("=="), cbText("."), lit.MapGet("m").Clone())),
			cbArray(cbText("=="), cbText("."), lit.Clone()))
	}
	for _, pair := range [][2]*CB{{polFor(benign), hostile}, {polFor(hostile), benign}, {polFor(hostile), hostile}} {
		pb, db := pair[0].Encode(), pair[1].Encode()
		guardT(o, "policy.FromIPLD + Match (shaped literal)", len(pb)+len(db), true, func() {
			pn, err1 := ipld.Decode(pb, dagcbor.Decode)
			dn, err2 := ipld.Decode(db, dagcbor.Decode)
			if err1 != nil || err2 != nil {
				return
			}
			if p2, err := policy.FromIPLD(pn); err == nil {
				p2.Match(dn)
				p2.PartialMatch(dn)
			}
		})
		o.Eval("C09")
	}
	// the same data offered as arguments / metadata values through the public constructors
	var aerr error
	guardT(o, "args.Add(node)", len(raw), false, func() { aerr = args.New().Add("x", node) })
	// (a ready-made node is an argument value like any other: integers beyond +/-(2^53-1) anywhere
	// in it are refused)
	o.Eval("C10")
	if aerr == nil && !intsInRange(node) {
		o.Violate("C10", "argument-out-of-range-accepted", "args.Add accepted a ready-made node holding an integer beyond +/-(2^53-1)", map[string]string{"go_type": "datamodel.Node"})
	}
	guardT(o, "meta.Add(node)", len(raw), false, func() { _ = meta.NewMeta().Add("x", node) })
}

// ---- C10: constructor side, Go values of every numeric type

func (e *wireExec) argType(s *XStep) {
	o := e.o
	var v any
	var want int64
	representable := true
	var u uint64
	var i int64
	fmt.Sscan(s.GoV, &i)
	fmt.Sscan(s.GoV, &u)
	switch s.GoT {
	case "int":
		v, want = int(i), i
	case "int8":
		v, want = int8(i), int64(int8(i))
	case "int16":
		v, want = int16(i), int64(int16(i))
	case "int32":
		v, want = int32(i), int64(int32(i))
	case "int64":
		v, want = i, i
	case "uint":
		v, want = uint(u), int64(u)
		representable = u <= math.MaxInt64
	case "uint8":
		v, want = uint8(u), int64(uint8(u))
	case "uint16":
		v, want = uint16(u), int64(uint16(u))
	case "uint32":
		v, want = uint32(u), int64(uint32(u))
	case "uint64":
		v, want = u, int64(u)
		representable = u <= math.MaxInt64
	default:
		return
	}
	check := func(where string, n datamodel.Node, err error) {
		o.Eval("C10")
		o.Sig("C10", "argtype", s.GoT, s.GoV, where, err == nil)
		if err != nil {
			return // rejected: fine
		}
		got, gerr := n.AsInt()
		if gerr != nil || !representable || got != want {
			o.Violate("C10", "argument-altered", fmt.Sprintf("%s(%s) passed to %s was stored as %d", s.GoT, s.GoV, where, got), map[string]string{"go_type": s.GoT, "where": where})
			return
		}
		if where == "args.Add" && (got > maxSafe || got < -maxSafe) {
			o.Violate("C10", "argument-out-of-range-accepted", fmt.Sprintf("%s(%s) accepted as an argument", s.GoT, s.GoV), map[string]string{"go_type": s.GoT})
		}
	}
	var n datamodel.Node
	var err error
	if !guard(o, "literal.Any", func() { n, err = literal.Any(v) }) {
		check("literal.Any", n, err)
	}
	a := args.New()
	if !guard(o, "args.Add", func() { err = a.Add("k", v) }) {
		if err == nil {
			n, _ = a.GetNode("k")
		}
		check("args.Add", n, err)
	}
	mm := meta.NewMeta()
	if !guard(o, "meta.Add", func() { err = mm.Add("k", v) }) {
		if err == nil {
			n, _ = mm.GetNode("k")
		}
		check("meta.Add", n, err)
	}
	// a refused value is not stored: the same Args keeps working and carries only what was accepted
	for _, form := range []string{"go", "node", "node-in-list"} {
		var val any = v
		if form != "go" {
			if !representable {
				continue
			}
			val = basicnode.NewInt(want)
			if form == "node-in-list" {
				lb := basicnode.Prototype.List.NewBuilder()
				la, _ := lb.BeginList(1)
				la.AssembleValue().AssignInt(want)
				la.Finish()
				val = lb.Build()
			}
		}
		for _, target := range []string{"args", "meta"} {
			a2, m2 := args.New(), meta.NewMeta()
			var e0, e1, e2 error
			var stored bool
			var iterHas bool
			if guard(o, target+".Add after refusal", func() {
				if target == "args" {
					e0 = a2.Add("first", int64(1))
					e1 = a2.Add("k", val)
					_, gerr := a2.GetNode("k")
					stored = gerr == nil
					for key := range a2.Iter() {
						if key == "k" {
							iterHas = true
						}
					}
					e2 = a2.Add("later", int64(2))
				} else {
					e0 = m2.Add("first", int64(1))
					e1 = m2.Add("k", val)
					_, gerr := m2.GetNode("k")
					stored = gerr == nil
					for key := range m2.Iter() {
						if key == "k" {
							iterHas = true
						}
					}
					e2 = m2.Add("later", int64(2))
				}
			}) {
				continue
			}
			o.Eval("C10")
			o.Sig("C10", "argtype-refusal", s.GoT, form, target, e1 == nil)
			attrs := map[string]string{"go_type": s.GoT, "where": target + ".Add", "form": form}
			if e0 != nil {
				continue
			}
			if e1 != nil && (stored || iterHas) {
				o.Violate("C10", "rejected-value-stored", fmt.Sprintf("%s.Add(%s %s(%s)) returned an error and the value is stored all the same", target, form, s.GoT, s.GoV), attrs)
				continue
			}
			if e1 != nil && e2 != nil {
				o.Violate("C10", "rejected-value-stored", fmt.Sprintf("after %s.Add refused %s(%s), adding an ordinary value to the same collection fails: %v", target, s.GoT, s.GoV, e2), attrs)
				continue
			}
			if target == "args" && len(e.toks) > 0 && e.toks[0] != nil {
				// whatever the collection holds now goes into an invocation, which must come back
				w := e.toks[0]
				iss := e.cast.ent(w.spec.iss())
				var tk *invocation.Token
				var cerr error
				if guard(o, "invocation.New(args after refusal)", func() {
					tk, cerr = invocation.New(iss.id, iss.id, command.MustParse("/a"), nil, invocation.WithArguments(a2))
				}) || cerr != nil || tk == nil {
					continue
				}
				sealed, _, serr := tk.ToSealed(iss.priv)
				if serr != nil {
					continue
				}
				if _, _, derr := invocation.FromSealed(sealed); derr != nil {
					o.Violate("C10", "rejected-value-stored", fmt.Sprintf("arguments that went through a refused %s.Add(%s %s(%s)) give an invocation that seals and is not accepted back: %v", target, form, s.GoT, s.GoV, derr), attrs)
				}
			}
		}
	}
	// nested: the reflection path
	if !guard(o, "args.Add(nested)", func() { err = args.New().Add("k", map[string]any{"v": []any{v}}) }) {
		o.Eval("C10")
		if err == nil && (!representable || want > maxSafe || want < -maxSafe) {
			o.Violate("C10", "argument-out-of-range-accepted", fmt.Sprintf("nested %s(%s) accepted as an argument", s.GoT, s.GoV), map[string]string{"go_type": s.GoT})
		}
	}
}

func init() {
	register(&ScenarioDef{
		Name:  "wire",
		Props: []string{"C06", "C07", "C08", "C09", "C10"},
		Gen:   genWire,
		Exec:  execWire,
		Decode: func(b []byte) (Plan, error) {
			var p WirePlan
			if err := json.Unmarshal(b, &p); err != nil {
				return nil, err
			}
			return &p, nil
		},
	})
}
