package sim

import (
	"bytes"
	"crypto/sha256"
	"fmt"
	"sort"
	"strings"
	"time"

	"github.com/ipfs/go-cid"
	"github.com/ipld/go-ipld-prime"
	"github.com/ipld/go-ipld-prime/codec/dagcbor"
	"github.com/ipld/go-ipld-prime/datamodel"

	"github.com/ucan-wg/go-ucan/did"
	"github.com/ucan-wg/go-ucan/pkg/args"
	"github.com/ucan-wg/go-ucan/pkg/command"
	"github.com/ucan-wg/go-ucan/pkg/policy"
	"github.com/ucan-wg/go-ucan/pkg/policy/literal"
	"github.com/ucan-wg/go-ucan/token"
	"github.com/ucan-wg/go-ucan/token/delegation"
	"github.com/ucan-wg/go-ucan/token/invocation"
)

// Translation of abstract records into calls of the real constructors, and of
// real tokens back into comparable records.

func simTime(sec int64, ms int64) time.Time {
	return time.Unix(simEpochUnix+sec, ms*1_000_000)
}

func nowNS() int64 { return time.Now().UnixNano() - simEpochUnix*1_000_000_000 }

// valToGo converts a Val to the plain Go value a caller would hand to
// Add / WithArgument.
func valToGo(v Val) any {
	switch v.K {
	case "int":
		return v.I
	case "float":
		return v.F
	case "str":
		return v.S
	case "bool":
		return v.B
	case "bytes":
		return append([]byte{}, v.X...)
	case "rstr":
		return string(v.X)
	case "link":
		if c, err := cid.Cast(v.X); err == nil {
			return c
		}
		return nil
	case "null":
		return literal.Null()
	case "list", "map":
		if holdsNull(v) {
			// a plain Go map / slice cannot hold a null for literal.Any (it refuses a nil element and
			// a Node element alike): such a container is handed over as a Node, as a caller must
			if n, err := ipld.Decode(valToCB(v).Encode(), dagcbor.Decode); err == nil {
				return n
			}
		}
	}
	switch v.K {
	case "list":
		out := make([]any, len(v.L))
		for i, e := range v.L {
			out[i] = valToGo(e)
		}
		return out
	case "map":
		out := make(map[string]any, len(v.M))
		for _, kv := range v.M {
			out[kv.Key] = valToGo(kv.V)
		}
		return out
	}
	return nil
}

func holdsNull(v Val) bool {
	switch v.K {
	case "null":
		return true
	case "list":
		for _, e := range v.L {
			if holdsNull(e) {
				return true
			}
		}
	case "map":
		for _, e := range v.M {
			if holdsNull(e.V) {
				return true
			}
		}
	}
	return false
}

// valToCB is the harness's own canonical DAG-CBOR rendering of a Val.
func valToCB(v Val) *CB {
	switch v.K {
	case "int":
		return cbInt(v.I)
	case "float":
		return cbFloat64(v.F)
	case "str":
		return cbText(v.S)
	case "bool":
		return cbBool(v.B)
	case "bytes":
		return cbBytes(append([]byte{}, v.X...))
	case "rstr":
		return &CB{Major: 3, Data: append([]byte{}, v.X...)}
	case "null":
		return cbNull()
	case "link":
		return cbTag(42, cbBytes(append([]byte{0x00}, v.X...)))
	case "list":
		c := &CB{Major: 4}
		for _, e := range v.L {
			c.Kids = append(c.Kids, valToCB(e))
		}
		return c
	case "map":
		var kv []*CB
		for _, e := range v.M {
			kv = append(kv, cbText(e.Key), valToCB(e.V))
		}
		return cbMap(kv...)
	}
	return cbNull()
}

func valNode(v Val) (ipld.Node, error) { return literal.Any(valToGo(v)) }

func stmtCtor(s Stmt) policy.Constructor {
	switch s.Op {
	case "==", "<", "<=", ">", ">=":
		n, err := valNode(*s.Val)
		if err != nil {
			return func() (policy.Statement, error) { return nil, err }
		}
		switch s.Op {
		case "==":
			return policy.Equal(s.Sel, n)
		case "<":
			return policy.LessThan(s.Sel, n)
		case "<=":
			return policy.LessThanOrEqual(s.Sel, n)
		case ">":
			return policy.GreaterThan(s.Sel, n)
		default:
			return policy.GreaterThanOrEqual(s.Sel, n)
		}
	case "like":
		return policy.Like(s.Sel, s.Pat)
	case "not":
		return policy.Not(stmtCtor(s.Kids[0]))
	case "and", "or":
		ks := make([]policy.Constructor, len(s.Kids))
		for i, k := range s.Kids {
			ks[i] = stmtCtor(k)
		}
		if s.Op == "and" {
			return policy.And(ks...)
		}
		return policy.Or(ks...)
	case "all":
		return policy.All(s.Sel, stmtCtor(s.Kids[0]))
	case "any":
		return policy.Any(s.Sel, stmtCtor(s.Kids[0]))
	}
	return func() (policy.Statement, error) { return nil, fmt.Errorf("unknown op %q", s.Op) }
}

func buildPolicy(ss []Stmt) (policy.Policy, error) {
	cs := make([]policy.Constructor, len(ss))
	for i, s := range ss {
		cs[i] = stmtCtor(s)
	}
	return policy.Construct(cs...)
}

func labelNonce(label string, n int) []byte {
	out := make([]byte, 0, n)
	h := sha256.Sum256([]byte("nonce:" + label))
	for len(out) < n {
		out = append(out, h[:]...)
		h = sha256.Sum256(h[:])
	}
	return out[:n]
}

func missingCID(label string) cid.Cid {
	c, err := cid.Cast(harnessCID([]byte("missing:" + label)))
	if err != nil {
		panic(err)
	}
	return c
}

func mustCID(b []byte) cid.Cid {
	c, err := cid.Cast(b)
	if err != nil {
		panic(err)
	}
	return c
}

// principals of a run
type cast []Principal

// lookAlike is the offset of principal indices that denote a key-less look-alike of
// principal i-lookAlike: its did:key string differs from the original's only in the case
// of one base58 letter (another key, nobody holds its private key; it can be an audience
// or a subject, never an issuer).
const lookAlike = 100

func (c cast) did(i int) did.DID {
	if i < 0 || len(c) == 0 {
		return did.Undef
	}
	if i >= lookAlike {
		orig := key(c[(i-lookAlike)%len(c)]).id
		s := []byte(orig.String())
		for k := len(s) - 1; k > len("did:key:z")+4; k-- {
			ch := s[k]
			var sw byte
			switch {
			case ch >= 'a' && ch <= 'z' && ch != 'o' && ch != 'i':
				sw = ch - 32
			case ch >= 'A' && ch <= 'Z' && ch != 'L':
				sw = ch + 32
			default:
				continue
			}
			s[k] = sw
			if d, err := did.Parse(string(s)); err == nil && d != orig {
				return d
			}
			s[k] = ch
		}
		return orig
	}
	return key(c[i%len(c)]).id
}

// canon maps a principal index of a plan onto the one representative the builder and the
// model both use: the model compares indices, the builder turns them into DIDs, and the two
// must denote the same principal for ANY integer a generator composition or a minimiser
// candidate can produce (negative = none; 0..99 = cast member modulo the cast size;
// 100.. = look-alike of a cast member, or that member itself where no look-alike exists).
func (c cast) canon(i int) int {
	if i < 0 || len(c) == 0 {
		return -1
	}
	if i >= lookAlike {
		b := (i - lookAlike) % len(c)
		if c.did(lookAlike+b) == c.did(b) {
			return b
		}
		return lookAlike + b
	}
	return i % len(c)
}

func (c cast) ent(i int) *keyEntry {
	if i < 0 {
		i = 0
	}
	if i >= lookAlike {
		i -= lookAlike
	}
	return key(c[i%len(c)])
}

// polBase resolves a delegation label to the policy slice of the live token object of that label
// (set by the world executor for the duration of a run; nil elsewhere).
var polBase func(label string) (policy.Policy, bool)

// sharedOpts holds option values that several delegations of a run share (see DlgSpec.ShareOpt);
// set by the world executor for the duration of a run, nil elsewhere.
var sharedOpts map[string]delegation.Option

// buildCmd turns a plan's command text into a Command the way callers do: by parsing it, or (for
// about half of the texts a parser accepts, and for every text given as raw bytes) from its
// segments with command.New, which does not validate.
func buildCmd(text string) (command.Command, error) {
	t := cmdText(text)
	if strings.HasPrefix(text, cmdBytesPrefix) {
		return command.New(cmdSegs(t)...), nil
	}
	if validCommandModel(t) && len(t)%2 == 0 {
		if c := command.New(cmdSegs(t)...); string(c) == t {
			return c, nil
		}
	}
	return command.Parse(t)
}

func buildDelegation(c cast, s DlgSpec) (*delegation.Token, error) {
	cmd, err := buildCmd(s.Cmd)
	if err != nil {
		return nil, fmt.Errorf("command: %w", err)
	}
	pol, err := buildPolicy(s.Pol)
	if err != nil {
		return nil, fmt.Errorf("policy: %w", err)
	}
	if s.PolFrom != "" && polBase != nil {
		// the attenuation idiom on a live token: append(parent.Policy(), own...), which shares the
		// parent's backing array whenever that has room
		if base, ok := polBase(s.PolFrom); ok && len(base) <= len(s.Pol) {
			own, oerr := buildPolicy(s.Pol[len(base):])
			if oerr == nil {
				pol = append(base, own...)
			}
		}
	}
	if s.PolSpare {
		// a policy slice with spare capacity, as a caller gets from a pre-sized slice or
		// from the attenuation idiom append(base, more...)
		pol = append(make(policy.Policy, 0, len(pol)+4), pol...)
	}
	var opts []delegation.Option
	if s.Exp != nil {
		t := simTime(*s.Exp, s.SubMilli)
		if s.ShareOpt != "" && sharedOpts != nil {
			// one option value for every delegation of that name (the duration is the same by plan)
			opt, ok := sharedOpts[s.ShareOpt]
			if !ok {
				opt = delegation.WithExpirationIn(time.Until(t))
				sharedOpts[s.ShareOpt] = opt
			}
			opts = append(opts, opt)
		} else if s.Relative {
			opts = append(opts, delegation.WithExpirationIn(time.Until(t)))
		} else {
			opts = append(opts, delegation.WithExpiration(t))
		}
	}
	if s.Nbf != nil {
		ms := s.SubMilli
		if s.NbfMilli != 0 {
			ms = s.NbfMilli
		}
		t := simTime(*s.Nbf, ms)
		if s.Relative {
			opts = append(opts, delegation.WithNotBeforeIn(time.Until(t)))
		} else {
			opts = append(opts, delegation.WithNotBefore(t))
		}
	}
	if s.NonceLen > 0 {
		opts = append(opts, delegation.WithNonce(labelNonce(s.Label, s.NonceLen)))
	}
	for _, m := range s.Meta {
		switch {
		case m.EncKey != nil && m.AsStr:
			opts = append(opts, delegation.WithEncryptedMetaString(m.Key, string(m.Secret), m.EncKey))
		case m.EncKey != nil:
			opts = append(opts, delegation.WithEncryptedMetaBytes(m.Key, m.Secret, m.EncKey))
		default:
			opts = append(opts, delegation.WithMeta(m.Key, valToGo(*m.V)))
		}
	}
	if s.UseRoot && s.Sub == s.Iss {
		return delegation.Root(c.did(s.Iss), c.did(s.Aud), cmd, pol, opts...)
	}
	if s.Sub >= 0 {
		opts = append(opts, delegation.WithSubject(c.did(s.Sub)))
	}
	return delegation.New(c.did(s.Iss), c.did(s.Aud), cmd, pol, opts...)
}

func buildInvocation(c cast, s InvSpec, prf []cid.Cid) (*invocation.Token, error) {
	cmd, err := buildCmd(s.Cmd)
	if err != nil {
		return nil, fmt.Errorf("command: %w", err)
	}
	var opts []invocation.Option
	switch s.ArgsVia {
	case "args", "include", "split":
		a := args.New()
		n := len(s.Args)
		if s.ArgsVia == "split" {
			n = (n + 1) / 2
		}
		for _, kv := range s.Args[:n] {
			if err := a.Add(kv.Key, valToGo(kv.V)); err != nil {
				return nil, fmt.Errorf("args.Add: %w", err)
			}
		}
		if s.ArgsVia == "include" {
			b := args.New()
			b.Include(a)
			a = b
		}
		opts = append(opts, invocation.WithArguments(a))
		for _, kv := range s.Args[n:] {
			opts = append(opts, invocation.WithArgument(kv.Key, valToGo(kv.V)))
		}
	case "overlap":
		// options whose keys overlap: every entry first through WithArgument, then the whole set again
		// through WithArguments with OTHER values for the first half (documented: the later value for
		// a key that is already there is dropped without an error)
		for _, kv := range s.Args {
			opts = append(opts, invocation.WithArgument(kv.Key, valToGo(kv.V)))
		}
		a := args.New()
		for i, kv := range s.Args {
			var v any = valToGo(kv.V)
			if i < (len(s.Args)+1)/2 {
				v = "dsim: a later value for a key that is already there"
			}
			if err := a.Add(kv.Key, v); err != nil {
				return nil, fmt.Errorf("args.Add: %w", err)
			}
		}
		opts = append(opts, invocation.WithArguments(a))
	case "builder":
		b := args.NewBuilder()
		for _, kv := range s.Args {
			b.Add(kv.Key, valToGo(kv.V))
		}
		a, err := b.Build()
		if err != nil {
			return nil, fmt.Errorf("args.Builder: %w", err)
		}
		opts = append(opts, invocation.WithArguments(a))
	default:
		for _, kv := range s.Args {
			opts = append(opts, invocation.WithArgument(kv.Key, valToGo(kv.V)))
		}
	}
	if s.Aud >= 0 {
		opts = append(opts, invocation.WithAudience(c.did(s.Aud)))
	}
	if s.Exp != nil {
		t := simTime(*s.Exp, 0)
		if s.Relative {
			opts = append(opts, invocation.WithExpirationIn(time.Until(t)))
		} else {
			opts = append(opts, invocation.WithExpiration(t))
		}
	}
	switch s.Iat {
	case "none":
		opts = append(opts, invocation.WithoutInvokedAt())
	case "past":
		opts = append(opts, invocation.WithInvokedAt(time.Now().Add(-time.Hour)))
	case "future":
		opts = append(opts, invocation.WithInvokedAtIn(time.Hour))
	case "zero": // the zero time.Time (year 1)
		opts = append(opts, invocation.WithInvokedAt(time.Time{}))
	case "epoch":
		opts = append(opts, invocation.WithInvokedAt(time.Unix(0, 0)))
	case "neg":
		opts = append(opts, invocation.WithInvokedAt(time.Unix(-1_000_000_000, 500)))
	case "y9999":
		opts = append(opts, invocation.WithInvokedAt(time.Date(9999, 12, 31, 23, 59, 59, 0, time.UTC)))
	case "y2300":
		opts = append(opts, invocation.WithInvokedAt(time.Date(2300, 1, 1, 0, 0, 0, 0, time.UTC)))
	}
	if s.NonceLen > 0 {
		opts = append(opts, invocation.WithNonce(labelNonce(s.Label, s.NonceLen)))
	} else if s.NonceLen < 0 {
		opts = append(opts, invocation.WithEmptyNonce())
	}
	for _, m := range s.Meta {
		switch {
		case m.EncKey != nil && m.AsStr:
			opts = append(opts, invocation.WithEncryptedMetaString(m.Key, string(m.Secret), m.EncKey))
		case m.EncKey != nil:
			opts = append(opts, invocation.WithEncryptedMetaBytes(m.Key, m.Secret, m.EncKey))
		default:
			opts = append(opts, invocation.WithMeta(m.Key, valToGo(*m.V)))
		}
	}
	if s.Cause {
		cc := missingCID("cause:" + s.Label)
		opts = append(opts, invocation.WithCause(&cc))
	}
	return invocation.New(c.did(s.Iss), c.did(s.Sub), cmd, prf, opts...)
}

// ------------------------------------------------------------------ records

// TokRec is a flat, comparable view of a real token obtained through its
// read-only accessors and Iter (never through an operation that is itself
// under test for mutation).
type TokRec struct {
	Type  string
	Iss   string
	Aud   string
	Sub   string
	Cmd   string
	Pol   string
	Nonce string
	Meta  []string // "key=hex(dag-cbor(value))" in Iter order
	Args  []string
	Prf   []string
	Nbf   string
	Exp   string
	Iat   string
	Cause string
	Exact string // the bounds at nanosecond resolution (immutability snapshots only)
}

func nodeHex(n datamodel.Node) string {
	if n == nil {
		return "<nil>"
	}
	b, err := ipld.Encode(n, dagcbor.Encode)
	if err != nil {
		return "ERR:" + err.Error()
	}
	return fmt.Sprintf("%x", b)
}

func tsStr(t *time.Time) string {
	if t == nil {
		return "-"
	}
	return fmt.Sprint(t.Unix())
}

func didStr(d did.DID) string {
	if !d.Defined() {
		return "-"
	}
	return d.String()
}

// rawRec holds what the accessors returned, before anything is formatted: the
// sched scenario collects it inside an operation and renders it afterwards, so
// that no harness-side formatting (fmt uses a sync.Pool, which the race
// detector treats as synchronisation) runs between library calls of different
// goroutines.
type rawRec struct {
	kind          string
	iss, aud, sub did.DID
	cmd           string
	pol           policy.Policy
	hasPol        bool
	nonce         []byte
	metaK, argsK  []string
	metaV, argsV  []datamodel.Node
	prf           []cid.Cid
	nbf, exp, iat *time.Time
	cause         *cid.Cid
}

func rawOf(tk token.Token) rawRec {
	switch t := tk.(type) {
	case *delegation.Token:
		r := rawRec{kind: "dlg", iss: t.Issuer(), aud: t.Audience(), sub: t.Subject(), cmd: t.Command().String(), pol: t.Policy(), hasPol: true,
			nonce: t.Nonce(), nbf: t.NotBefore(), exp: t.Expiration()}
		for k, v := range t.Meta().Iter() {
			r.metaK, r.metaV = append(r.metaK, k), append(r.metaV, v)
		}
		return r
	case *invocation.Token:
		r := rawRec{kind: "inv", iss: t.Issuer(), aud: t.Audience(), sub: t.Subject(), cmd: t.Command().String(),
			nonce: t.Nonce(), exp: t.Expiration(), iat: t.InvokedAt(), cause: t.Cause(), prf: t.Proof()}
		for k, v := range t.Meta().Iter() {
			r.metaK, r.metaV = append(r.metaK, k), append(r.metaV, v)
		}
		for k, v := range t.Arguments().Iter() {
			r.argsK, r.argsV = append(r.argsK, k), append(r.argsV, v)
		}
		return r
	}
	return rawRec{kind: "?"}
}

func (x rawRec) render() TokRec {
	r := TokRec{Type: x.kind, Iss: didStr(x.iss), Aud: didStr(x.aud), Sub: didStr(x.sub), Cmd: x.cmd, Nonce: fmt.Sprintf("%x", x.nonce),
		Nbf: tsStr(x.nbf), Exp: tsStr(x.exp), Iat: tsStr(x.iat), Cause: "-", Pol: "-"}
	for _, t := range []*time.Time{x.nbf, x.exp, x.iat} {
		if t == nil {
			r.Exact += "-;"
		} else {
			r.Exact += fmt.Sprintf("%d.%09d;", t.Unix(), t.Nanosecond())
		}
	}
	if x.kind == "dlg" {
		r.Iat = "-"
		pn, err := x.pol.ToIPLD()
		if err != nil {
			r.Pol = "ERR:" + err.Error()
		} else {
			r.Pol = nodeHex(pn)
		}
	} else {
		r.Nbf = "-"
	}
	for i, k := range x.metaK {
		r.Meta = append(r.Meta, k+"="+nodeHex(x.metaV[i]))
	}
	for i, k := range x.argsK {
		r.Args = append(r.Args, k+"="+nodeHex(x.argsV[i]))
	}
	for _, c := range x.prf {
		r.Prf = append(r.Prf, c.String())
	}
	if x.cause != nil {
		r.Cause = x.cause.String()
	}
	return r
}

func recOf(tk token.Token) TokRec {
	x := rawOf(tk)
	if x.kind == "?" {
		return TokRec{Type: fmt.Sprintf("%T", tk)}
	}
	return x.render()
}

func sortedCopy(xs []string) []string {
	out := append([]string{}, xs...)
	sort.Strings(out)
	return out
}

// Content renders the record with map-like fields sorted (key order of
// arguments and metadata is not part of a token's content).
func (r TokRec) Content() string {
	return strings.Join([]string{r.Type, r.Iss, r.Aud, r.Sub, r.Cmd, r.Pol, r.Nonce,
		strings.Join(sortedCopy(r.Meta), ","), strings.Join(sortedCopy(r.Args), ","), strings.Join(r.Prf, ","),
		r.Nbf, r.Exp, r.Iat, r.Cause}, "|")
}

// Ordered renders the record including the Iter order of arguments and
// metadata (used by the immutability snapshots).
func (r TokRec) Ordered() string {
	return strings.Join([]string{r.Type, r.Iss, r.Aud, r.Sub, r.Cmd, r.Pol, r.Nonce,
		strings.Join(r.Meta, ","), strings.Join(r.Args, ","), strings.Join(r.Prf, ","),
		r.Nbf, r.Exp, r.Iat, r.Cause, r.Exact}, "|")
}

func diffRec(a, b TokRec) string {
	var d []string
	chk := func(name, x, y string) {
		if x != y {
			d = append(d, fmt.Sprintf("%s: %s != %s", name, x, y))
		}
	}
	chk("type", a.Type, b.Type)
	chk("iss", a.Iss, b.Iss)
	chk("aud", a.Aud, b.Aud)
	chk("sub", a.Sub, b.Sub)
	chk("cmd", a.Cmd, b.Cmd)
	chk("pol", a.Pol, b.Pol)
	chk("nonce", a.Nonce, b.Nonce)
	chk("meta", strings.Join(sortedCopy(a.Meta), ","), strings.Join(sortedCopy(b.Meta), ","))
	chk("args", strings.Join(sortedCopy(a.Args), ","), strings.Join(sortedCopy(b.Args), ","))
	chk("prf", strings.Join(a.Prf, ","), strings.Join(b.Prf, ","))
	chk("nbf", a.Nbf, b.Nbf)
	chk("exp", a.Exp, b.Exp)
	chk("iat", a.Iat, b.Iat)
	chk("cause", a.Cause, b.Cause)
	return strings.Join(d, "; ")
}

// specArgsCheck compares the arguments a constructor stored with what the
// caller supplied, through the harness's own DAG-CBOR rendering of the
// supplied values.
func storedEquals(n datamodel.Node, v Val) bool {
	b, err := ipld.Encode(n, dagcbor.Encode)
	if err != nil {
		return false
	}
	return bytes.Equal(b, valToCB(v).Encode())
}
