package sim

import (
	"fmt"
	"strings"
)

// Plan generator of the `wire` scenario.

var argTypeTable = func() [][2]string {
	var out [][2]string
	add := func(t string, vs ...string) {
		for _, v := range vs {
			out = append(out, [2]string{t, v})
		}
	}
	add("int", "0", "-1", "9007199254740991", "9007199254740992", "-9007199254740991", "-9007199254740992", "9223372036854775807", "-9223372036854775808")
	add("int8", "127", "-128")
	add("int16", "32767", "-32768")
	add("int32", "2147483647", "-2147483648")
	add("int64", "9007199254740991", "9007199254740992", "-9007199254740992", "9223372036854775807", "-9223372036854775808")
	add("uint", "0", "9007199254740991", "9007199254740992", "9223372036854775807", "9223372036854775808", "18446744073709551615")
	add("uint8", "255")
	add("uint16", "65535")
	add("uint32", "4294967295")
	add("uint64", "9007199254740991", "9007199254740992", "9223372036854775808", "18446744073709551615")
	return out
}()

func wireTokSpec(r *Rand, nCast int, label string, focus string) TokSpec {
	ts := genTokSpec(r, nCast, label, true)
	// extreme but accepted time bounds
	if r.Chance(0.15) {
		ext := Pick(r, []int64{9007199254740991 - simEpochUnix, 9007199254740992 - simEpochUnix, 1<<60 - simEpochUnix, 253402300799 - simEpochUnix})
		if ts.Kind == "dlg" {
			ts.Dlg.Exp, ts.Dlg.Relative = &ext, false
		} else {
			ts.Inv.Exp, ts.Inv.Relative = &ext, false
		}
	}
	// finite floats with zero fractional part (DAG-JSON writes them as integers)
	if r.Chance(0.12) {
		f := Pick(r, []float64{1.0, -3.0, 1e21, 0.0})
		if ts.Kind == "inv" {
			ts.Inv.Args = append(ts.Inv.Args, KV{"whole", vFloat(f)})
		} else {
			ts.Dlg.Meta = append(ts.Dlg.Meta, MetaSpec{Key: "whole", V: ptr(vFloat(f))})
		}
	}
	// a large value: writes and reads beyond the usual buffer sizes
	if r.Chance(0.1) {
		big := MetaSpec{Key: "blob", V: ptr(vBytes(r.Bytes(Pick(r, []int{4096, 4097, 9000}))))}
		if r.Chance(0.5) {
			big = MetaSpec{Key: "text", V: ptr(vStr(strings.Repeat("abcdefgh", 700)))}
		}
		if ts.Kind == "inv" {
			ts.Inv.Meta = append(ts.Inv.Meta, big)
		} else {
			ts.Dlg.Meta = append(ts.Dlg.Meta, big)
		}
	}
	// a Go string that is not valid UTF-8 (DAG-CBOR carries it, DAG-JSON cannot)
	if r.Chance(0.08) {
		v := Val{K: "rstr", X: Pick(r, [][]byte{{'a', 0xff, 0xfe, 'b'}, []byte("caf\xe9.txt"), []byte("dangling \xe2\x82"), {0xff}, []byte("ok\xc0\xafok")})}
		if ts.Kind == "inv" && r.Chance(0.4) {
			// nested in a list and in a map
			ts.Inv.Args = append(ts.Inv.Args, KV{"rawn", vList(vMap(KV{"s", v}), v)})
		} else if ts.Kind == "inv" {
			ts.Inv.Args = append(ts.Inv.Args, KV{"raw", v})
		} else {
			ts.Dlg.Meta = append(ts.Dlg.Meta, MetaSpec{Key: "raw", V: &v})
		}
	}
	if r.Chance(0.25) {
		// empty and falsy shapes
		v := vMap(KV{"e", vMap()}, KV{"l", vList()}, KV{"b", Val{K: "bytes", X: []byte{}}}, KV{"f", vBool(false)}, KV{"s", vStr("")}, KV{"z", vInt(0)}, KV{"n", vInt(-1)}, KV{"ll", vList(vList(), vMap())})
		if ts.Kind == "inv" {
			ts.Inv.Args = append(ts.Inv.Args, KV{"shapes", v}, KV{"emptystr", vStr("")}, KV{"no", vBool(false)}, KV{"nil", vNull()})
			ts.Inv.Meta = append(ts.Inv.Meta, MetaSpec{Key: "shapes", V: &v}, MetaSpec{Key: "zero", V: ptr(vInt(0))}, MetaSpec{Key: "no", V: ptr(vBool(false))}, MetaSpec{Key: "eb", V: ptr(Val{K: "bytes", X: []byte{}})})
		} else {
			ts.Dlg.Meta = append(ts.Dlg.Meta, MetaSpec{Key: "shapes", V: &v}, MetaSpec{Key: "zero", V: ptr(vInt(0))}, MetaSpec{Key: "es", V: ptr(vStr(""))}, MetaSpec{Key: "no", V: ptr(vBool(false))})
		}
	}
	// constructor-side deviations that must be refused (C10): short nonce, undefined principals
	if r.Chance(0.12) {
		n := r.Range(1, 11)
		if ts.Kind == "inv" {
			ts.Inv.NonceLen = n
		} else {
			ts.Dlg.NonceLen = n
		}
	}
	if r.Chance(0.06) {
		if ts.Kind == "inv" {
			if r.Chance(0.5) {
				ts.Inv.Iss = -1
			} else {
				ts.Inv.Sub = -1
			}
		} else if r.Chance(0.5) {
			ts.Dlg.Iss = -1
		} else {
			ts.Dlg.Aud = -1
		}
	}
	if r.Chance(0.2) {
		v := vMap(KV{"a", vList(vInt(-9007199254740991), vInt(9007199254740991), vFloat(2.5), vBytes(r.Bytes(r.Range(0, 40))))}, KV{"s", vStr("ünï")})
		if ts.Kind == "inv" {
			ts.Inv.Meta = append(ts.Inv.Meta, MetaSpec{Key: "nest", V: &v})
		} else {
			ts.Dlg.Meta = append(ts.Dlg.Meta, MetaSpec{Key: "nest", V: &v})
		}
	}
	return ts
}

// widen gives a token collections that cross encoding and capacity thresholds: a policy of 24 /
// 130 / 256 / 300 statements, a literal list of hundreds of small maps, hundreds of metadata
// entries or arguments.
func widen(r *Rand, ts *TokSpec) {
	n := Pick(r, []int{24, 130, 256, 300})
	var recs []Val
	for i := 0; i < n; i++ {
		recs = append(recs, vMap(KV{"i", vInt(int64(i))}))
	}
	if ts.Kind == "dlg" {
		switch r.Intn(3) {
		case 0:
			for i := 0; i < n; i++ {
				ts.Dlg.Pol = append(ts.Dlg.Pol, Stmt{Op: Pick(r, []string{"==", "<", ">="}), Sel: fmt.Sprintf(".k%d", i%7), Val: ptr(vInt(int64(i)))})
			}
		case 1:
			ts.Dlg.Pol = append(ts.Dlg.Pol, Stmt{Op: "==", Sel: ".recs", Val: ptr(Val{K: "list", L: recs})})
		default:
			for i := 0; i < n; i++ {
				ts.Dlg.Meta = append(ts.Dlg.Meta, MetaSpec{Key: fmt.Sprintf("m%03d", i), V: ptr(vInt(int64(i)))})
			}
		}
		return
	}
	switch r.Intn(3) {
	case 0:
		ts.Inv.Args = append(ts.Inv.Args, KV{"recs", Val{K: "list", L: recs}})
	case 1:
		for i := 0; i < n; i++ {
			ts.Inv.Args = append(ts.Inv.Args, KV{fmt.Sprintf("a%03d", i), vStr("v")})
		}
	default:
		for i := 0; i < n; i++ {
			ts.Inv.Meta = append(ts.Inv.Meta, MetaSpec{Key: fmt.Sprintf("m%03d", i), V: ptr(vMap(KV{"i", vInt(int64(i))}))})
		}
	}
}

func genWire(r *Rand, g GenCfg) Plan {
	p := &WirePlan{}
	p.Cast = genCast(r, g.Tier, 2, 4)
	p.Tokens = []TokSpec{wireTokSpec(r, len(p.Cast), "t0", g.Focus), wireTokSpec(r, len(p.Cast), "t1", g.Focus)}
	// the issuer of the base token takes the six key algorithms in turn (by run index), so that
	// every batch enumerates tokens of every algorithm the DID package can generate
	if iss := p.Tokens[0].iss(); iss >= 0 && len(p.Cast) > 0 {
		alg := allAlgs[g.Index%uint64(len(allAlgs))]
		p.Cast[iss%len(p.Cast)] = Principal{alg, int(g.Index/6) % poolSize[alg]}
	}
	// one run in sixteen carries a token whose signed part is larger than 64 KiB, one in sixteen a
	// token with wide collections (by run index, so that every batch has them)
	huge := g.Index%16 == 7
	if huge {
		blob := MetaSpec{Key: "blob", V: ptr(vBytes(r.Bytes(Pick(r, []int{66000, 70000, 140000}))))}
		p.Cast = []Principal{{"ed25519", r.Intn(8)}, {"ed25519", r.Intn(8)}, {"secp256k1", r.Intn(4)}}
		t := &p.Tokens[0]
		if t.Kind == "dlg" {
			t.Dlg.Meta = append(t.Dlg.Meta, blob)
		} else if r.Chance(0.5) {
			t.Inv.Meta = append(t.Inv.Meta, blob)
		} else {
			t.Inv.Args = append(t.Inv.Args, KV{"blob", *blob.V})
		}
	}
	// the routes arguments can take into an invocation are taken in turn, and every fourth run an
	// invocation carries a top-level byte string, a nested one, a float, a link-free list of lists
	routes := []string{"", "args", "builder", "include", "split", "overlap"}
	for ti := range p.Tokens {
		if inv := p.Tokens[ti].Inv; p.Tokens[ti].Kind == "inv" && inv != nil {
			inv.ArgsVia = routes[int(g.Index/2+uint64(ti))%len(routes)]
			if g.Index%4 == 3 {
				inv.Args = append(inv.Args, KV{"bin0", vBytes(r.Bytes(r.Range(1, 40)))}, KV{"binl", vList(vBytes(r.Bytes(3)), vMap(KV{"b", vBytes(r.Bytes(5))}))}, KV{"fl", vFloat(2.5)}, KV{"ll", vList(vList(vInt(1)), vList())})
			}
		}
	}
	wide := -1
	if g.Index%16 == 11 {
		wide = r.Intn(2)
		widen(r, &p.Tokens[wide])
	}
	add := func(s XStep) { p.Steps = append(p.Steps, s) }
	add(XStep{Op: "roundtrip", Tok: 0})
	add(XStep{Op: "roundtrip", Tok: 1})
	fields := func(kind string) []string {
		if kind == "dlg" {
			return dlgFields
		}
		return invFields
	}
	kind0 := p.Tokens[0].Kind
	focus := g.Focus
	all := focus == ""
	if focus == "C06" || all {
		tok := r.Intn(2)
		if all {
			add(XStep{Op: "flip_all", Tok: tok, Lo: r.Intn(2000), Hi: -1})
			p.Steps[len(p.Steps)-1].Hi = p.Steps[len(p.Steps)-1].Lo + 200
		} else if huge || wide >= 0 {
			// (a complete enumeration of a 10-100 KB token would be millions of large decodes: an odd
			// stride over everything, dense windows around 64 KiB and at the end, both ends complete)
			tok = 0
			if !huge {
				tok = wide
			}
			for _, op := range []string{"flip_all", "trunc_all", "del_all"} {
				unit := 1
				if op == "flip_all" {
					unit = 8
				}
				st := 449 // bytes
				if op == "flip_all" {
					st = 1621 // bits
				}
				add(XStep{Op: op, Tok: tok, Hi: -1, Stride: st})
				add(XStep{Op: op, Tok: tok, Lo: (65536 - 40) * unit, Hi: (65536 + 400) * unit, Stride: 7})
				add(XStep{Op: op, Tok: tok, Lo: 0, Hi: 64 * unit, Stride: 1})
				add(XStep{Op: op, Tok: tok, Lo: -100 * unit, Hi: -1, Stride: 1})
			}
		} else {
			add(XStep{Op: "flip_all", Tok: tok, Hi: -1})
			add(XStep{Op: "trunc_all", Tok: tok, Hi: -1})
			add(XStep{Op: "del_all", Tok: tok, Hi: -1})
			if r.Chance(0.3) {
				add(XStep{Op: "flip_all", Tok: tok, Codec: "json", Hi: -1})
				add(XStep{Op: "trunc_all", Tok: tok, Codec: "json", Hi: -1})
			}
		}
		for i := 0; i < 24; i++ {
			add(XStep{Op: "mutate", Tok: r.Intn(2), Codec: Pick(r, []string{"cbor", "cbor", "json"}), Kind: Pick(r, []string{"subst", "insert", "append"}), At: r.Intn(4096), Val: r.Intn(256)})
		}
		for _, k := range []string{"empty", "trunc", "trunc", "other_key", "iss_swapped", "foreign_header", "foreign_header", "unknown_header", "no_header", "two_payloads", "splice", "hostile_header", "hostile_header", "zero_hash", "zero_hash", "did_url", "did_url", "did_url", "foreign_alt_sig", "foreign_alt_sig", "foreign_alt_sig", "alias_header", "alias_header", "alias_header"} {
			add(XStep{Op: "sig", Tok: r.Intn(2), Kind: k, At: r.Intn(600), Val: r.Intn(256)})
		}
		for v := 0; v < 16; v++ {
			add(XStep{Op: "sig", Tok: 0, Kind: "alias_header", Val: v})
		}
		for v := 0; v < 14; v++ {
			add(XStep{Op: "sig", Tok: v % 2, Kind: "sig_shape", Val: v})
		}
		for v := 0; v < 4; v++ {
			add(XStep{Op: "sig", Tok: v % 2, Kind: "nonce_is_signed_part", Val: v})
			add(XStep{Op: "sig", Tok: v % 2, Kind: "meta_huge_uint", Val: v})
		}
		if g.Index%4 == 2 {
			add(XStep{Op: "sig", Tok: r.Intn(2), Kind: "churn", Val: Pick(r, []int{0, 1, 2, 2})})
		}
		for t := 0; t < 2; t++ {
			for _, f := range fields(p.Tokens[t].Kind) {
				add(XStep{Op: "jsonfield", Tok: t, Field: f, How: Pick(r, []string{"null", "rewrite", "rewrite+null", "rewrite+null"}), Val: r.Intn(200), At: r.Intn(7)})
			}
			for _, f := range fields(p.Tokens[t].Kind) {
				add(XStep{Op: "field", Tok: t, Field: f, How: "set", Val: r.Intn(200)})
				if r.Chance(0.5) {
					add(XStep{Op: "field", Tok: t, Field: f, How: "drop", Val: r.Intn(200)})
				}
			}
		}
	}
	if focus == "C08" || all {
		n := 12
		if all {
			n = 2
		}
		for _, k := range []string{"head_width", "indef", "perm_keys", "float_width", "undef_null", "tag_wrap", "dup_key"} {
			for i := 0; i < n; i++ {
				add(XStep{Op: "reencode", Tok: r.Intn(2), Kind: k, At: r.Intn(1000), Val: r.Intn(64)})
			}
		}
		add(XStep{Op: "reencode", Tok: 0, Kind: "signature"})
		add(XStep{Op: "reencode", Tok: 1, Kind: "signature"})
		add(XStep{Op: "reencode", Tok: r.Intn(2), Kind: "trailing"})
		add(XStep{Op: "reencode", Tok: 0, Kind: "lex_all", Val: 0})
		add(XStep{Op: "reencode", Tok: 1, Kind: "lex_all", Val: r.Intn(2)})
		for i := 0; i < 1+n/4; i++ {
			add(XStep{Op: "reencode", Tok: r.Intn(2), Kind: "extra_elem", At: r.Intn(1000), Val: r.Intn(64)})
		}
	}
	if focus == "C09" || all {
		depths := []int{10, 100, 1000, 10000}
		nn := 6
		if all {
			nn = 1
			depths = []int{10, 100}
		}
		for i := 0; i < nn; i++ {
			add(XStep{Op: "hostile", Tok: r.Intn(2), Kind: "deep_value", Depth: Pick(r, depths), Val: r.Intn(6)})
			add(XStep{Op: "hostile", Tok: r.Intn(2), Kind: "deep_policy", Depth: Pick(r, depths), Val: r.Intn(21)})
			add(XStep{Op: "hostile", Tok: r.Intn(2), Kind: "deep_policy", Depth: Pick(r, []int{9, 10, 11, 19, 20, 21, 32, 33, 64}), Val: r.Intn(21)})
		}
		for i := 0; i < 3*nn; i++ {
			t := r.Intn(2)
			f := Pick(r, []string{"aud", "sub", "iss"})
			add(XStep{Op: "hostile", Tok: t, Kind: "bad_did", Field: f, Val: r.Intn(64), At: r.Intn(512), Depth: 100 + r.Intn(2)})
			add(XStep{Op: "hostile", Tok: r.Intn(2), Kind: "hostile_len", At: r.Intn(200), Val: r.Intn(2)})
		}
		for v := 0; v < 11; v++ {
			add(XStep{Op: "hostile", Kind: "match", Val: v})
		}
		for v := 0; v < 15; v++ {
			if all && v%5 != 0 {
				continue
			}
			add(XStep{Op: "hostile", Tok: r.Intn(2), Kind: "envelope", Val: v})
		}
		for i := 0; i < 3*nn; i++ {
			add(XStep{Op: "hostile", Kind: "glob", Val: r.Intn(64), At: r.Intn(64)})
		}
		for i := 0; i < 2*nn; i++ {
			add(XStep{Op: "sig", Tok: r.Intn(2), Kind: "hostile_header", At: r.Intn(64), Val: r.Intn(12)})
		}
		for i := 0; i < 8*nn; i++ {
			add(XStep{Op: "hostile", Tok: r.Intn(2), Kind: "odd_operator", At: r.Intn(90), Val: r.Intn(128)})
		}
		nt := 60
		if all {
			nt = 6
		}
		for i := 0; i < nt; i++ {
			add(XStep{Op: "textmut", Tok: r.Intn(2), Field: Pick(r, []string{"policy", "selector", "selector", "did"}), Kind: Pick(r, []string{"subst", "subst", "insert", "delete", "dup"}),
				At: r.Intn(4096), Val: int(Pick(r, []byte("[]{}\"'.?:-*0129azAZ \\/,\x00\xff\x80")))})
		}
		if !all {
			tok := r.Intn(2)
			if huge && tok == 0 {
				add(XStep{Op: "trunc_all", Tok: tok, Hi: -1, Stride: 149})
				add(XStep{Op: "trunc_all", Tok: tok, Hi: 400})
				add(XStep{Op: "trunc_all", Tok: tok, Lo: -400, Hi: -1})
			} else {
				add(XStep{Op: "trunc_all", Tok: tok, Hi: -1})
			}
			lo := r.Intn(1500)
			add(XStep{Op: "flip_all", Tok: tok, Lo: lo, Hi: lo + 600})
			for i := 0; i < 40; i++ {
				add(XStep{Op: "mutate", Tok: r.Intn(2), Codec: Pick(r, []string{"cbor", "json"}), Kind: Pick(r, []string{"subst", "insert", "append"}), At: r.Intn(4096), Val: r.Intn(256)})
			}
			// the byzantine payload-shape deviations are hostile input too
			for i := 0; i < 30; i++ {
				f := Pick(r, fields(kind0))
				add(XStep{Op: "byz", Tok: 0, Field: f, How: Pick(r, []string{"retype", "range", "drop"}), Kind: Pick(r, []string{"int", "text", "bytes", "bool", "null", "array", "map", "float", "link"}), Val: r.Intn(64)})
			}
		}
	}
	// the byzantine signer's payload-shape deviations are hostile input too: C09 runs them all
	if focus == "C10" || focus == "C09" || all {
		for t := 0; t < 2; t++ {
			if all && t == 1 {
				break
			}
			k := p.Tokens[t].Kind
			for _, f := range fields(k) {
				add(XStep{Op: "byz", Tok: t, Field: f, How: "drop"})
				if all {
					continue
				}
				add(XStep{Op: "byz", Tok: t, Field: f, How: "unknown_key", Val: r.Intn(9)})
				for _, to := range []string{"int", "text", "bytes", "bool", "null", "array", "map", "float", "link", "empty-map", "empty-array", "empty-text", "empty-bytes"} {
					add(XStep{Op: "byz", Tok: t, Field: f, How: "retype", Kind: to, Val: r.Intn(64)})
				}
			}
			for _, f := range []string{"nbf", "exp", "iat", "args", "pol", "meta"} {
				for v := 0; v < 72; v++ {
					if all && v > 1 {
						break
					}
					if v >= 48 && f != "args" && f != "pol" {
						break
					}
					add(XStep{Op: "byz", Tok: t, Field: f, How: "range", Val: v})
				}
				if f == "pol" && !all {
					// integers inside selectors (9 numbers x 6 places)
					for v := 72; v < 72+54; v++ {
						add(XStep{Op: "byz", Tok: t, Field: f, How: "range", Val: v})
					}
				}
			}
			for v := 0; v < 3; v++ {
				add(XStep{Op: "byz", Tok: t, Field: "nonce", How: "nonce_len", Val: v})
			}
			for _, f := range []string{"iss", "aud", "sub"} {
				for v := 0; v < 6; v++ {
					add(XStep{Op: "byz", Tok: t, Field: f, How: "undef_did", Val: v})
				}
			}
			for v := 0; v < 11; v++ {
				add(XStep{Op: "byz", Tok: t, Field: "cmd", How: "bad_cmd", Val: v})
			}
			for v := 12; v < 22; v++ {
				add(XStep{Op: "byz", Tok: t, Field: "tag", How: "other_tag", Val: v})
			}
			for v := 0; v < 12; v++ {
				add(XStep{Op: "byz", Tok: t, Field: "tag", How: "other_tag", Val: v})
				add(XStep{Op: "byz", Tok: t, Field: "sp", How: "sp_shape", Val: v + 4*r.Intn(3)})
			}
		}
		for i, tv := range argTypeTable {
			if focus == "C09" || (all && i%7 != 0) {
				continue
			}
			add(XStep{Op: "argtype", GoT: tv[0], GoV: tv[1]})
		}
	}
	if focus == "C07" {
		// C07 rides on the two round trips above ... and, in one run of 64, on a long-lived process:
		// three hundred other principals issue and decode tokens, then the first token is read again
		_ = fmt.Sprint
		if g.Index%64 == 9 {
			add(XStep{Op: "sig", Tok: 0, Kind: "churn", Val: 2})
		}
	}
	return p
}
