package sim

import (
	"fmt"
	"strings"
)

// Plan generator of the `wire` scenario.

var argTypeTable = func() [][2]string {
	var out [][2]string
	add := func(t string, vs ...string) {
		for _, v := range vs {
			out = append(out, [2]string{t, v})
		}
	}
	add("int", "0", "-1", "9007199254740991", "9007199254740992", "-9007199254740991", "-9007199254740992", "9223372036854775807", "-9223372036854775808")
	add("int8", "127", "-128")
	add("int16", "32767", "-32768")
	add("int32", "2147483647", "-2147483648")
	add("int64", "9007199254740991", "9007199254740992", "-9007199254740992", "9223372036854775807", "-9223372036854775808")
	add("uint", "0", "9007199254740991", "9007199254740992", "9223372036854775807", "9223372036854775808", "18446744073709551615")
	add("uint8", "255")
	add("uint16", "65535")
	add("uint32", "4294967295")
	add("uint64", "9007199254740991", "9007199254740992", "9223372036854775808", "18446744073709551615")
	return out
}()

func wireTokSpec(r *Rand, nCast int, label string, focus string) TokSpec {
	ts := genTokSpec(r, nCast, label, true)
	// extreme but accepted time bounds
	if r.Chance(0.15) {
		ext := Pick(r, []int64{9007199254740991 - simEpochUnix, 9007199254740992 - simEpochUnix, 1<<60 - simEpochUnix, 253402300799 - simEpochUnix})
		if ts.Kind == "dlg" {
			ts.Dlg.Exp, ts.Dlg.Relative = &ext, false
		} else {
			ts.Inv.Exp, ts.Inv.Relative = &ext, false
		}
	}
	// finite floats with zero fractional part (DAG-JSON writes them as integers)
	if r.Chance(0.12) {
		f := Pick(r, []float64{1.0, -3.0, 1e21, 0.0})
		if ts.Kind == "inv" {
			ts.Inv.Args = append(ts.Inv.Args, KV{"whole", vFloat(f)})
		} else {
			ts.Dlg.Meta = append(ts.Dlg.Meta, MetaSpec{Key: "whole", V: ptr(vFloat(f))})
		}
	}
	// a large value: writes and reads beyond the usual buffer sizes
	if r.Chance(0.1) {
		big := MetaSpec{Key: "blob", V: ptr(vBytes(r.Bytes(Pick(r, []int{4096, 4097, 9000}))))}
		if r.Chance(0.5) {
			big = MetaSpec{Key: "text", V: ptr(vStr(strings.Repeat("abcdefgh", 700)))}
		}
		if ts.Kind == "inv" {
			ts.Inv.Meta = append(ts.Inv.Meta, big)
		} else {
			ts.Dlg.Meta = append(ts.Dlg.Meta, big)
		}
	}
	// a Go string that is not valid UTF-8 (DAG-CBOR carries it, DAG-JSON cannot)
	if r.Chance(0.04) {
		v := Val{K: "rstr", X: []byte{'a', 0xff, 0xfe, 'b'}}
		if ts.Kind == "inv" {
			ts.Inv.Args = append(ts.Inv.Args, KV{"raw", v})
		} else {
			ts.Dlg.Meta = append(ts.Dlg.Meta, MetaSpec{Key: "raw", V: &v})
		}
	}
	if r.Chance(0.25) {
		// empty and falsy shapes
		v := vMap(KV{"e", vMap()}, KV{"l", vList()}, KV{"b", Val{K: "bytes", X: []byte{}}}, KV{"f", vBool(false)}, KV{"s", vStr("")}, KV{"z", vInt(0)}, KV{"n", vInt(-1)}, KV{"ll", vList(vList(), vMap())})
		if ts.Kind == "inv" {
			ts.Inv.Args = append(ts.Inv.Args, KV{"shapes", v}, KV{"emptystr", vStr("")}, KV{"no", vBool(false)}, KV{"nil", vNull()})
			ts.Inv.Meta = append(ts.Inv.Meta, MetaSpec{Key: "shapes", V: &v}, MetaSpec{Key: "zero", V: ptr(vInt(0))}, MetaSpec{Key: "no", V: ptr(vBool(false))}, MetaSpec{Key: "eb", V: ptr(Val{K: "bytes", X: []byte{}})})
		} else {
			ts.Dlg.Meta = append(ts.Dlg.Meta, MetaSpec{Key: "shapes", V: &v}, MetaSpec{Key: "zero", V: ptr(vInt(0))}, MetaSpec{Key: "es", V: ptr(vStr(""))}, MetaSpec{Key: "no", V: ptr(vBool(false))})
		}
	}
	// constructor-side deviations that must be refused (C10): short nonce, undefined principals
	if r.Chance(0.12) {
		n := r.Range(1, 11)
		if ts.Kind == "inv" {
			ts.Inv.NonceLen = n
		} else {
			ts.Dlg.NonceLen = n
		}
	}
	if r.Chance(0.06) {
		if ts.Kind == "inv" {
			if r.Chance(0.5) {
				ts.Inv.Iss = -1
			} else {
				ts.Inv.Sub = -1
			}
		} else if r.Chance(0.5) {
			ts.Dlg.Iss = -1
		} else {
			ts.Dlg.Aud = -1
		}
	}
	if r.Chance(0.2) {
		v := vMap(KV{"a", vList(vInt(-9007199254740991), vInt(9007199254740991), vFloat(2.5), vBytes(r.Bytes(r.Range(0, 40))))}, KV{"s", vStr("ünï")})
		if ts.Kind == "inv" {
			ts.Inv.Meta = append(ts.Inv.Meta, MetaSpec{Key: "nest", V: &v})
		} else {
			ts.Dlg.Meta = append(ts.Dlg.Meta, MetaSpec{Key: "nest", V: &v})
		}
	}
	return ts
}

func genWire(r *Rand, g GenCfg) Plan {
	p := &WirePlan{}
	p.Cast = genCast(r, g.Tier, 2, 4)
	p.Tokens = []TokSpec{wireTokSpec(r, len(p.Cast), "t0", g.Focus), wireTokSpec(r, len(p.Cast), "t1", g.Focus)}
	add := func(s XStep) { p.Steps = append(p.Steps, s) }
	add(XStep{Op: "roundtrip", Tok: 0})
	add(XStep{Op: "roundtrip", Tok: 1})
	fields := func(kind string) []string {
		if kind == "dlg" {
			return dlgFields
		}
		return invFields
	}
	kind0 := p.Tokens[0].Kind
	focus := g.Focus
	all := focus == ""
	if focus == "C06" || all {
		tok := r.Intn(2)
		if all {
			add(XStep{Op: "flip_all", Tok: tok, Lo: r.Intn(2000), Hi: -1})
			p.Steps[len(p.Steps)-1].Hi = p.Steps[len(p.Steps)-1].Lo + 200
		} else {
			add(XStep{Op: "flip_all", Tok: tok, Hi: -1})
			add(XStep{Op: "trunc_all", Tok: tok, Hi: -1})
			add(XStep{Op: "del_all", Tok: tok, Hi: -1})
			if r.Chance(0.3) {
				add(XStep{Op: "flip_all", Tok: tok, Codec: "json", Hi: -1})
				add(XStep{Op: "trunc_all", Tok: tok, Codec: "json", Hi: -1})
			}
		}
		for i := 0; i < 24; i++ {
			add(XStep{Op: "mutate", Tok: r.Intn(2), Codec: Pick(r, []string{"cbor", "cbor", "json"}), Kind: Pick(r, []string{"subst", "insert", "append"}), At: r.Intn(4096), Val: r.Intn(256)})
		}
		for _, k := range []string{"empty", "trunc", "trunc", "other_key", "iss_swapped", "foreign_header", "foreign_header", "unknown_header", "no_header", "two_payloads", "splice"} {
			add(XStep{Op: "sig", Tok: r.Intn(2), Kind: k, At: r.Intn(600), Val: r.Intn(256)})
		}
		for t := 0; t < 2; t++ {
			for _, f := range fields(p.Tokens[t].Kind) {
				add(XStep{Op: "jsonfield", Tok: t, Field: f, How: Pick(r, []string{"null", "rewrite", "rewrite+null", "rewrite+null"}), Val: r.Intn(200), At: r.Intn(7)})
			}
			for _, f := range fields(p.Tokens[t].Kind) {
				add(XStep{Op: "field", Tok: t, Field: f, How: "set", Val: r.Intn(200)})
				if r.Chance(0.5) {
					add(XStep{Op: "field", Tok: t, Field: f, How: "drop", Val: r.Intn(200)})
				}
			}
		}
	}
	if focus == "C08" || all {
		n := 12
		if all {
			n = 2
		}
		for _, k := range []string{"head_width", "indef", "perm_keys", "float_width", "undef_null", "tag_wrap", "dup_key"} {
			for i := 0; i < n; i++ {
				add(XStep{Op: "reencode", Tok: r.Intn(2), Kind: k, At: r.Intn(1000), Val: r.Intn(64)})
			}
		}
		add(XStep{Op: "reencode", Tok: 0, Kind: "signature"})
		add(XStep{Op: "reencode", Tok: 1, Kind: "signature"})
		add(XStep{Op: "reencode", Tok: r.Intn(2), Kind: "trailing"})
		for i := 0; i < 1+n/4; i++ {
			add(XStep{Op: "reencode", Tok: r.Intn(2), Kind: "extra_elem", At: r.Intn(1000), Val: r.Intn(64)})
		}
	}
	if focus == "C09" || all {
		depths := []int{10, 100, 1000, 10000}
		nn := 6
		if all {
			nn = 1
			depths = []int{10, 100}
		}
		for i := 0; i < nn; i++ {
			add(XStep{Op: "hostile", Tok: r.Intn(2), Kind: "deep_value", Depth: Pick(r, depths), Val: r.Intn(6)})
			add(XStep{Op: "hostile", Tok: r.Intn(2), Kind: "deep_policy", Depth: Pick(r, depths), Val: r.Intn(3)})
		}
		for i := 0; i < 3*nn; i++ {
			t := r.Intn(2)
			f := Pick(r, []string{"aud", "sub", "iss"})
			add(XStep{Op: "hostile", Tok: t, Kind: "bad_did", Field: f, Val: r.Intn(64), At: r.Intn(512), Depth: 100 + r.Intn(2)})
			add(XStep{Op: "hostile", Tok: r.Intn(2), Kind: "hostile_len", At: r.Intn(200), Val: r.Intn(2)})
		}
		for v := 0; v < 11; v++ {
			add(XStep{Op: "hostile", Kind: "match", Val: v})
		}
		for v := 0; v < 15; v++ {
			if all && v%5 != 0 {
				continue
			}
			add(XStep{Op: "hostile", Tok: r.Intn(2), Kind: "envelope", Val: v})
		}
		for i := 0; i < 3*nn; i++ {
			add(XStep{Op: "hostile", Kind: "glob", Val: r.Intn(64), At: r.Intn(64)})
		}
		nt := 60
		if all {
			nt = 6
		}
		for i := 0; i < nt; i++ {
			add(XStep{Op: "textmut", Tok: r.Intn(2), Field: Pick(r, []string{"policy", "selector", "selector", "did"}), Kind: Pick(r, []string{"subst", "subst", "insert", "delete", "dup"}),
				At: r.Intn(4096), Val: int(Pick(r, []byte("[]{}\"'.?:-*0129azAZ \\/,\x00\xff\x80")))})
		}
		if !all {
			tok := r.Intn(2)
			add(XStep{Op: "trunc_all", Tok: tok, Hi: -1})
			lo := r.Intn(1500)
			add(XStep{Op: "flip_all", Tok: tok, Lo: lo, Hi: lo + 600})
			for i := 0; i < 40; i++ {
				add(XStep{Op: "mutate", Tok: r.Intn(2), Codec: Pick(r, []string{"cbor", "json"}), Kind: Pick(r, []string{"subst", "insert", "append"}), At: r.Intn(4096), Val: r.Intn(256)})
			}
			// the byzantine payload-shape deviations are hostile input too
			for i := 0; i < 30; i++ {
				f := Pick(r, fields(kind0))
				add(XStep{Op: "byz", Tok: 0, Field: f, How: Pick(r, []string{"retype", "range", "drop"}), Kind: Pick(r, []string{"int", "text", "bytes", "bool", "null", "array", "map", "float", "link"}), Val: r.Intn(64)})
			}
		}
	}
	// the byzantine signer's payload-shape deviations are hostile input too: C09 runs them all
	if focus == "C10" || focus == "C09" || all {
		for t := 0; t < 2; t++ {
			if all && t == 1 {
				break
			}
			k := p.Tokens[t].Kind
			for _, f := range fields(k) {
				add(XStep{Op: "byz", Tok: t, Field: f, How: "drop"})
				if all {
					continue
				}
				add(XStep{Op: "byz", Tok: t, Field: f, How: "unknown_key", Val: r.Intn(9)})
				for _, to := range []string{"int", "text", "bytes", "bool", "null", "array", "map", "float", "link"} {
					add(XStep{Op: "byz", Tok: t, Field: f, How: "retype", Kind: to, Val: r.Intn(64)})
				}
			}
			for _, f := range []string{"nbf", "exp", "iat", "args", "pol", "meta"} {
				for v := 0; v < 32; v++ {
					if all && v > 1 {
						break
					}
					add(XStep{Op: "byz", Tok: t, Field: f, How: "range", Val: v})
				}
			}
			for v := 0; v < 3; v++ {
				add(XStep{Op: "byz", Tok: t, Field: "nonce", How: "nonce_len", Val: v})
			}
			for v := 0; v < 6; v++ {
				add(XStep{Op: "byz", Tok: t, Field: "cmd", How: "bad_cmd", Val: v})
			}
			for v := 0; v < 12; v++ {
				add(XStep{Op: "byz", Tok: t, Field: "tag", How: "other_tag", Val: v})
				add(XStep{Op: "byz", Tok: t, Field: "sp", How: "sp_shape", Val: v + 4*r.Intn(3)})
			}
		}
		for i, tv := range argTypeTable {
			if focus == "C09" || (all && i%7 != 0) {
				continue
			}
			add(XStep{Op: "argtype", GoT: tv[0], GoV: tv[1]})
		}
	}
	if focus == "C07" {
		// C07 rides on the two round trips above; nothing else is needed
		_ = fmt.Sprint
	}
	return p
}
