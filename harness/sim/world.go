package sim

import (
	"bytes"
	"encoding/json"
	"errors"
	"fmt"
	"math"
	"os"
	"runtime/debug"
	"sort"
	"testing"
	"testing/synctest"
	"time"

	"github.com/ipfs/go-cid"
	"github.com/ipld/go-ipld-prime/datamodel"

	"github.com/ucan-wg/go-ucan/did"
	"github.com/ucan-wg/go-ucan/pkg/args"
	"github.com/ucan-wg/go-ucan/pkg/command"
	"github.com/ucan-wg/go-ucan/pkg/container"
	"github.com/ucan-wg/go-ucan/pkg/policy"
	"github.com/ucan-wg/go-ucan/pkg/policy/selector"
	"github.com/ucan-wg/go-ucan/token"
	"github.com/ucan-wg/go-ucan/token/delegation"
	"github.com/ucan-wg/go-ucan/token/invocation"
)

// The `world` scenario: principals issue delegations and invocations over
// simulated time, tokens travel to an executor as sealed bytes inside
// containers over a faulty transport, the executor keeps them in a
// container.Reader (its delegation.Loader) with a durable CAR copy on a
// simulated disk, crashes, restarts, and decides invocations at chosen
// instants of the fake clock. Decides C01-C05; C07/C08/C09/C10 monitors ride
// along.

type ShipSpec struct {
	Labels     []string `json:"labels"`
	Format     string   `json:"format"` // car cbor carb64 cborb64
	WStream    bool     `json:"wstream,omitempty"`
	RStream    bool     `json:"rstream,omitempty"`
	Chunks     []int    `json:"chunks,omitempty"`
	Perm       []int    `json:"perm,omitempty"`
	Fault      string   `json:"fault,omitempty"` // lost dup flip trunc
	Entry      int      `json:"entry,omitempty"`
	Bit        int      `json:"bit,omitempty"`
	TruncMille int      `json:"trunc_permille,omitempty"`
}

type LoaderFault struct {
	Call int    `json:"call"`
	Kind string `json:"kind"`           // notfound | error | swap (the store answers with ANOTHER delegation it holds)
	With string `json:"with,omitempty"` // swap: label of the delegation handed out instead
}

type CheckSpec struct {
	Inv      string        `json:"inv"`
	Variants []string      `json:"variants,omitempty"` // same invocation with another audience: decisions must agree
	LFaults  []LoaderFault `json:"loader_faults,omitempty"`
	Hook     string        `json:"hook,omitempty"` // identity add remove replace fail
	HookKey  string        `json:"hook_key,omitempty"`
	HookVal  *Val          `json:"hook_val,omitempty"`
	// Prov: additionally decide with tokens of mixed provenance: inv-built (the invocation
	// object as constructed, never sealed and decoded), dlg-built (the loader hands out the
	// delegation objects as constructed for everything the store holds), all-built
	Prov string `json:"prov,omitempty"`
	// HookSleepNS: the hook takes this long (simulated time): bounds that pass while it runs count
	HookSleepNS int64 `json:"hook_sleep_ns,omitempty"`
}

type ProbeSpec struct {
	Label string  `json:"label"`
	AtNS  []int64 `json:"at_ns"`
}

type WStep struct {
	Op    string     `json:"op"` // tick delegate invoke ship check probe crash restart reboot
	ToNS  int64      `json:"to_ns,omitempty"`
	Dlg   *DlgSpec   `json:"dlg,omitempty"`
	Inv   *InvSpec   `json:"inv,omitempty"`
	Ship  *ShipSpec  `json:"ship,omitempty"`
	Check *CheckSpec `json:"check,omitempty"`
	Probe *ProbeSpec `json:"probe,omitempty"`
	Torn  int        `json:"torn_permille,omitempty"`
	N     int        `json:"n,omitempty"` // churn: how many unrelated values of each kind
}

type WorldPlan struct {
	Cast  []Principal `json:"cast"`
	Steps []WStep     `json:"steps"`
	Note  string      `json:"note,omitempty"`
}

func (p *WorldPlan) Len() int { return len(p.Steps) }
func (p *WorldPlan) Keep(keep []bool) Plan {
	q := &WorldPlan{Cast: p.Cast, Note: p.Note}
	for i, s := range p.Steps {
		if keep[i] {
			q.Steps = append(q.Steps, s)
		}
	}
	return q
}

func (p *WorldPlan) clone() *WorldPlan {
	b, _ := json.Marshal(p)
	var q WorldPlan
	json.Unmarshal(b, &q)
	return &q
}

func (p *WorldPlan) Summary() map[string]any {
	ops := []string{}
	for _, s := range p.Steps {
		ops = append(ops, s.Op)
	}
	b, _ := json.Marshal(p)
	var full any
	if len(b) < 6000 {
		json.Unmarshal(b, &full)
	}
	return map[string]any{"scenario": "world", "cast": fmt.Sprint(p.Cast), "ops": ops, "note": p.Note, "plan": full}
}

// Simpler proposes single-change simplifications: drop a fault, a hook, a
// policy statement, a bound, metadata; shorten proof lists; Ed25519 keys.
func (p *WorldPlan) Simpler() []Plan {
	var out []Plan
	mut := func(f func(q *WorldPlan) bool) {
		q := p.clone()
		if f(q) {
			out = append(out, q)
		}
	}
	for i := range p.Cast {
		if p.Cast[i].Alg != "ed25519" {
			i := i
			mut(func(q *WorldPlan) bool { q.Cast[i] = Principal{"ed25519", i % poolSize["ed25519"]}; return true })
		}
	}
	for i, s := range p.Steps {
		i := i
		switch s.Op {
		case "ship":
			if s.Ship.Fault != "" {
				mut(func(q *WorldPlan) bool { q.Steps[i].Ship.Fault = ""; return true })
			}
			if s.Ship.Format != "cbor" || s.Ship.WStream || s.Ship.RStream || len(s.Ship.Chunks) > 0 || len(s.Ship.Perm) > 0 {
				mut(func(q *WorldPlan) bool {
					sh := q.Steps[i].Ship
					sh.Format, sh.WStream, sh.RStream, sh.Chunks, sh.Perm = "cbor", false, false, nil, nil
					return true
				})
			}
		case "check":
			if len(s.Check.LFaults) > 0 {
				mut(func(q *WorldPlan) bool { q.Steps[i].Check.LFaults = nil; return true })
			}
			if s.Check.Hook != "" {
				mut(func(q *WorldPlan) bool { q.Steps[i].Check.Hook = ""; return true })
			}
			for j := range s.Check.Variants {
				j := j
				mut(func(q *WorldPlan) bool {
					v := q.Steps[i].Check.Variants
					q.Steps[i].Check.Variants = append(v[:j:j], v[j+1:]...)
					return true
				})
			}
		case "delegate":
			d := s.Dlg
			for j := range d.Pol {
				j := j
				mut(func(q *WorldPlan) bool {
					pl := q.Steps[i].Dlg.Pol
					q.Steps[i].Dlg.Pol = append(pl[:j:j], pl[j+1:]...)
					return true
				})
			}
			if d.Nbf != nil {
				mut(func(q *WorldPlan) bool { q.Steps[i].Dlg.Nbf = nil; return true })
			}
			if d.Exp != nil {
				mut(func(q *WorldPlan) bool { q.Steps[i].Dlg.Exp = nil; return true })
			}
			if len(d.Meta) > 0 || d.NonceLen != 0 || d.SubMilli != 0 || d.UseRoot {
				mut(func(q *WorldPlan) bool {
					x := q.Steps[i].Dlg
					x.Meta, x.NonceLen, x.SubMilli, x.UseRoot = nil, 0, 0, false
					return true
				})
			}
			if d.Cmd != "/" {
				mut(func(q *WorldPlan) bool { q.Steps[i].Dlg.Cmd = "/"; return true })
			}
		case "invoke":
			v := s.Inv
			for j := range v.Prf {
				j := j
				mut(func(q *WorldPlan) bool {
					pr := q.Steps[i].Inv.Prf
					q.Steps[i].Inv.Prf = append(pr[:j:j], pr[j+1:]...)
					return true
				})
			}
			for j := range v.Args {
				j := j
				mut(func(q *WorldPlan) bool {
					a := q.Steps[i].Inv.Args
					q.Steps[i].Inv.Args = append(a[:j:j], a[j+1:]...)
					return true
				})
			}
			if v.Exp != nil {
				mut(func(q *WorldPlan) bool { q.Steps[i].Inv.Exp = nil; return true })
			}
			if len(v.Meta) > 0 || v.NonceLen != 0 || v.Cause || v.Iat != "" {
				mut(func(q *WorldPlan) bool {
					x := q.Steps[i].Inv
					x.Meta, x.NonceLen, x.Cause, x.Iat = nil, 0, false, ""
					return true
				})
			}
			if v.Aud >= 0 {
				mut(func(q *WorldPlan) bool { q.Steps[i].Inv.Aud = -1; return true })
			}
		case "probe":
			for j := range s.Probe.AtNS {
				j := j
				mut(func(q *WorldPlan) bool {
					a := q.Steps[i].Probe.AtNS
					q.Steps[i].Probe.AtNS = append(a[:j:j], a[j+1:]...)
					return true
				})
			}
		}
	}
	return out
}

// ------------------------------------------------------------------ executor

type artefact struct {
	label  string
	kind   string // dlg | inv
	sealed []byte
	cid    []byte
	dspec  *DlgSpec
	ispec  *InvSpec
	obj    token.Token // as constructed
	bornNS int64
}

type faultLoader struct {
	swap   func(label string) (*delegation.Token, string)
	inner  delegation.Loader
	faults []LoaderFault
	calls  int
	got    []loadRec
	o      *Outcome
	broken bool // a fault outside the Loader contract was injected during this call
}

type loadRec struct {
	cid string
	ok  bool
}

var errInjectedLoader = errors.New("dsim: injected transient loader error")

func (l *faultLoader) GetDelegation(c cid.Cid) (*delegation.Token, error) {
	i := l.calls
	l.calls++
	for _, f := range l.faults {
		if f.Call == i {
			if f.Kind == "swap" {
				// a store whose index is wrong: the answer is a delegation it really holds, but
				// not the one that was asked for; the model judges what was handed out
				if l.swap != nil {
					if t, cidhex := l.swap(f.With); t != nil {
						l.o.Fault("loader_swap")
						l.got = append(l.got, loadRec{cidhex, true})
						return t, nil
					}
				}
				break
			}
			l.got = append(l.got, loadRec{cidHex(c.Bytes()), false})
			switch f.Kind {
			case "nilnil":
				// OUTSIDE the Loader contract (a plain map lookup without the ok check): neither a
				// delegation nor an error
				l.o.Fault("loader_nil_nil")
				l.broken = true
				return nil, nil
			case "panic":
				l.o.Fault("loader_panic")
				l.broken = true
				panic("dsim: injected loader panic")
			}
			if f.Kind == "error" {
				l.o.Fault("loader_error")
				return nil, errInjectedLoader
			}
			l.o.Fault("loader_notfound")
			return nil, delegation.ErrDelegationNotFound
		}
	}
	t, err := l.inner.GetDelegation(c)
	l.got = append(l.got, loadRec{cidHex(c.Bytes()), err == nil && t != nil})
	return t, err
}

type worldExec struct {
	t    *testing.T
	o    *Outcome
	cast cast

	outbox map[string]*artefact // by label
	ledger map[string]*artefact // by cid hex

	store   container.Reader
	sealed  map[string][]byte            // executor memory: cid hex -> sealed bytes
	inbox   map[string]*invocation.Token // by cid hex
	disk    []byte
	lastPst []byte
	up      bool
}

// guard runs a library call that consumes untrusted or generated data; a panic
// is a C09 violation, never a harness crash.
func guard(o *Outcome, entry string, f func()) (panicked bool) {
	prev := o.inLib
	o.inLib = entry
	defer func() { o.inLib = prev }()
	defer func() {
		if r := recover(); r != nil {
			panicked = true
			if os.Getenv("DSIM_STACK") != "" { // debugging aid only; never part of the event log
				os.WriteFile(fmt.Sprintf("%s-%d.txt", os.Getenv("DSIM_STACK"), os.Getpid()), []byte(fmt.Sprintf("%s: %v\n%s\n", entry, r, debug.Stack())), 0o644)
			}
			o.Violate("C09", "panic", fmt.Sprintf("%s panicked: %v", entry, r), map[string]string{"entry": entry})
		}
	}()
	f()
	return false
}

func execWorld(t *testing.T, pl Plan, seed uint64, o *Outcome) {
	sharedOpts = map[string]delegation.Option{}
	defer func() { sharedOpts = nil }()
	p := pl.(*WorldPlan)
	w := &worldExec{t: t, o: o, outbox: map[string]*artefact{}, ledger: map[string]*artefact{}}
	for _, c := range p.Cast {
		w.cast = append(w.cast, normPrincipal(c))
	}
	if len(w.cast) == 0 {
		w.cast = cast{{"ed25519", 0}}
	}
	w.boot()
	// split into epochs at reboot steps
	i := 0
	startNS := int64(0)
	for i <= len(p.Steps) {
		j := i
		for j < len(p.Steps) && p.Steps[j].Op != "reboot" {
			j++
		}
		steps := p.Steps[i:j]
		synctest.Test(t, func(t *testing.T) {
			defer func() {
				if r := recover(); r != nil {
					o.Harness(fmt.Sprintf("panic in world executor: %v", r))
				}
			}()
			if startNS > 0 {
				time.Sleep(time.Duration(startNS))
			}
			for k := range steps {
				w.step(&steps[k])
				if o.HarnessErr != "" {
					return
				}
			}
			o.SimSec += float64(nowNS()) / 1e9
		})
		if j >= len(p.Steps) || o.HarnessErr != "" {
			break
		}
		// reboot: crash, new epoch (the clock may go backwards), restart
		w.crash(p.Steps[j].Torn)
		startNS = p.Steps[j].ToNS
		o.Logf("reboot to %d", startNS)
		o.Fault("reboot_clock_jump")
		i = j + 1
		// restart happens as first action of the next epoch via an implicit step
		rest := append([]WStep{{Op: "restart"}}, p.Steps[i:]...)
		p = &WorldPlan{Cast: p.Cast, Steps: rest}
		i = 0
	}
}

func (w *worldExec) boot() {
	w.store = container.Reader{}
	w.sealed = map[string][]byte{}
	w.inbox = map[string]*invocation.Token{}
	w.up = true
}

func (w *worldExec) crash(torn int) {
	if torn > 0 && w.lastPst != nil {
		w.disk = w.lastPst[:len(w.lastPst)*torn/1000]
		w.o.Fault("torn_store_write")
	}
	w.store, w.sealed, w.inbox, w.up = nil, nil, nil, false
	w.o.Fault("crash")
	w.o.Logf("crash torn=%d disk=%d", torn, len(w.disk))
}

func (w *worldExec) restart() {
	w.boot()
	if len(w.disk) == 0 {
		w.o.Logf("restart: empty disk")
		return
	}
	var rd container.Reader
	var err error
	if guard(w.o, "container.FromCarReader", func() { rd, err = container.FromCarReader(newSimReader(w.disk, nil, false, ReadFault{})) }) {
		return
	}
	if err != nil {
		w.o.Probe("restart_store_unreadable")
		w.o.Logf("restart: store unreadable")
		return
	}
	w.merge(rd, w.disk, "car")
	w.o.Logf("restart: %d tokens", len(w.store))
}

// merge adds what a container reader returned to the executor's memory, in
// CID order (never in map order).
func (w *worldExec) merge(rd container.Reader, raw []byte, format string) {
	entries := map[string][]byte{}
	switch format {
	case "car":
		if f, err := parseCAR(raw); err == nil {
			for _, b := range f.Blocks {
				entries[cidHex(harnessCID(b.Data))] = b.Data
			}
		}
	case "cbor":
		if es, err := parseCborContainer(raw); err == nil {
			for _, e := range es {
				entries[cidHex(harnessCID(e))] = e
			}
		}
	}
	keys := make([]string, 0, len(rd))
	byKey := map[string]token.Token{}
	cids := map[string]cid.Cid{}
	for c, tk := range rd {
		k := cidHex(c.Bytes())
		keys = append(keys, k)
		byKey[k] = tk
		cids[k] = c
	}
	sort.Strings(keys)
	for _, k := range keys {
		w.store[cids[k]] = byKey[k]
		if b, ok := entries[k]; ok {
			w.sealed[k] = b
		}
		if inv, ok := byKey[k].(*invocation.Token); ok {
			w.inbox[k] = inv
		}
	}
}

func (w *worldExec) persist() {
	wr := container.NewWriter()
	keys := make([]string, 0, len(w.sealed))
	for k := range w.sealed {
		keys = append(keys, k)
	}
	sort.Strings(keys)
	for _, k := range keys {
		b := w.sealed[k]
		wr.AddSealed(mustCID(harnessCID(b)), b)
	}
	sw := newSimWriter(WriteFault{})
	if err := wr.ToCarWriter(sw); err != nil {
		w.o.Logf("persist failed: %v", err != nil)
		return
	}
	f, err := parseCAR(sw.Bytes())
	if err != nil || !f.Complete {
		w.o.Violate("C17", "writer-output-unparseable", "CAR written by ToCarWriter is not parseable by the harness framing parser", nil)
		return
	}
	f.sortBlocks(nil)
	w.lastPst = f.Bytes()
	w.disk = w.lastPst
}

func (w *worldExec) step(s *WStep) {
	o := w.o
	switch s.Op {
	case "tick":
		if d := s.ToNS - nowNS(); d > 0 {
			time.Sleep(time.Duration(d))
		}
		o.Logf("tick now=%d", nowNS())
	case "churn":
		// a long-running process between two validations: N unrelated selectors, policies,
		// commands, identifiers and tokens pass through the library (whatever it remembers of them
		// must not change what the next validation sees)
		guard(o, "churn", func() {
			ent := w.cast.ent(0)
			for i := 0; i < s.N; i++ {
				_, _ = selector.Parse(fmt.Sprintf(".tenant%d.f[%d]", i, i%7))
				_, _ = selector.Parse(fmt.Sprintf(".t%d?", i))
				_, _ = policy.FromDagJson(fmt.Sprintf(`[["==", ".churn%d", %d], ["like", ".p%d", "a*%d"]]`, i, i, i, i))
				_, _ = command.Parse(fmt.Sprintf("/churn/c%d", i))
				raw := append([]byte{0xed, 0x01}, labelNonce(fmt.Sprint("churn-did", i), 32)...)
				if d, err := did.Parse("did:key:z" + b58(raw)); err == nil {
					_, _ = d.PubKey()
				}
				if i%8 == 0 {
					// ... and whole tokens with policies of their own, sealed and read back
					pol, perr := policy.FromDagJson(fmt.Sprintf(`[["==", ".owner%d", "x"]]`, i))
					cmd, _ := command.Parse(fmt.Sprintf("/churn/t%d", i))
					if perr == nil {
						if tk, err := delegation.Root(ent.id, ent.id, cmd, pol, delegation.WithNonce(labelNonce(fmt.Sprint("churn-tok", i), 16))); err == nil {
							if sealed, _, err := tk.ToSealed(ent.priv); err == nil {
								_, _, _ = delegation.FromSealed(sealed)
							}
						}
					}
				}
			}
		})
		o.Fault("process_churn")
		o.Logf("churn n=%d", s.N)
	case "delegate":
		if s.Dlg != nil {
			w.delegate(s.Dlg)
		}
	case "invoke":
		if s.Inv != nil {
			w.invoke(s.Inv)
		}
	case "ship":
		if s.Ship != nil && w.up {
			w.ship(s.Ship)
		}
	case "check":
		if s.Check != nil && w.up {
			w.check(s.Check)
		}
	case "probe":
		if s.Probe != nil {
			w.probe(s.Probe)
		}
	case "crash":
		if w.up {
			w.crash(s.Torn)
		}
	case "restart":
		if !w.up {
			w.restart()
		}
	}
}

// wellFormed is the C10 monitor for a token that came out of a constructor or
// a decoder.
func wellFormed(o *Outcome, tk token.Token, origin string) {
	o.Eval("C10")
	bad := func(what string) {
		o.Violate("C10", "ill-formed-"+origin, what, map[string]string{"what": what})
	}
	switch t := tk.(type) {
	case *delegation.Token:
		if !t.Issuer().Defined() {
			bad("delegation without issuer")
		}
		if !t.Audience().Defined() {
			bad("delegation without audience")
		}
		if len(t.Nonce()) < 12 {
			bad(fmt.Sprintf("delegation nonce of %d bytes", len(t.Nonce())))
		}
	case *invocation.Token:
		if !t.Issuer().Defined() {
			bad("invocation without issuer")
		}
		if !t.Subject().Defined() {
			bad("invocation without subject")
		}
		if len(t.Nonce()) < 12 {
			bad(fmt.Sprintf("invocation nonce of %d bytes", len(t.Nonce())))
		}
	case nil:
		bad("nil token without error")
	}
}

// roundTripMonitor is the C07 / C08 monitor on a fault-free delivery: the
// sealed bytes decode (generic and typed decoder) to the content that was
// constructed, and every reported CID is the harness's own hash of the bytes.
func roundTripMonitor(o *Outcome, obj token.Token, sealed []byte, sealCID cid.Cid, alg, kind string) {
	o.Eval("C07")
	o.Eval("C08")
	want := harnessCID(sealed)
	if !bytes.Equal(sealCID.Bytes(), want) {
		o.Violate("C08", "seal-cid", fmt.Sprintf("ToSealed reported %x, bytes hash to %x", sealCID.Bytes(), want), nil)
	}
	orig := recOf(obj)
	var gen token.Token
	var gcid cid.Cid
	var err error
	if guard(o, "token.FromSealed", func() { gen, gcid, err = token.FromSealed(sealed) }) {
		return
	}
	attrs := map[string]string{"alg": alg, "codec": "dag-cbor", "type": kind, "null_value": fmt.Sprint(hasTopLevelNull(obj))}
	if err != nil {
		o.Violate("C07", "unseal-failed", fmt.Sprintf("%s token sealed by a %s key cannot be unsealed: %v", kind, alg, err), attrs)
		return
	}
	wellFormed(o, gen, "decoder")
	if !bytes.Equal(gcid.Bytes(), want) {
		o.Violate("C08", "unseal-cid", fmt.Sprintf("FromSealed reported %x, bytes hash to %x", gcid.Bytes(), want), nil)
	}
	if d := diffRec(orig, recOf(gen)); d != "" {
		o.Violate("C07", "field-changed", "seal/unseal changed: "+d, attrs)
	}
	var typed token.Token
	var tcid cid.Cid
	switch kind {
	case "dlg":
		var x *delegation.Token
		if guard(o, "delegation.FromSealed", func() { x, tcid, err = delegation.FromSealed(sealed) }) {
			return
		}
		if x != nil {
			typed = x
		}
	case "inv":
		var x *invocation.Token
		if guard(o, "invocation.FromSealed", func() { x, tcid, err = invocation.FromSealed(sealed) }) {
			return
		}
		if x != nil {
			typed = x
		}
	}
	if err != nil || typed == nil {
		o.Violate("C07", "typed-decoder-disagrees", fmt.Sprintf("generic decoder accepts, typed decoder fails: %v", err), attrs)
		return
	}
	if !bytes.Equal(tcid.Bytes(), want) {
		o.Violate("C08", "unseal-cid", fmt.Sprintf("typed FromSealed reported %x, bytes hash to %x", tcid.Bytes(), want), nil)
	}
	if d := diffRec(recOf(gen), recOf(typed)); d != "" {
		o.Violate("C07", "typed-decoder-disagrees", "generic vs typed: "+d, attrs)
	}
	o.Sig("C07", kind, alg, "dag-cbor", len(orig.Meta), len(orig.Args), orig.Nbf != "-", orig.Exp != "-", orig.Iat != "-", orig.Cause != "-", orig.Aud != "-", orig.Sub != "-")
}

// hasTopLevelNull: an argument or metadata entry whose value is null.
func hasTopLevelNull(tk token.Token) bool {
	x := rawOf(tk)
	for _, v := range append(append([]datamodel.Node{}, x.metaV...), x.argsV...) {
		if v != nil && v.Kind() == datamodel.Kind_Null {
			return true
		}
	}
	return false
}

func (w *worldExec) delegate(s *DlgSpec) {
	polBase = func(label string) (policy.Policy, bool) {
		if a, ok := w.outbox[label]; ok && a.kind == "dlg" {
			if d, ok := a.obj.(*delegation.Token); ok && d != nil {
				return d.Policy(), true
			}
		}
		return nil, false
	}
	defer func() { polBase = nil }()
	sc := *s // the plan stays as generated; normalisations below live in the executor's copy
	s = &sc
	s.Iss, s.Aud, s.Sub = w.cast.canon(s.Iss), w.cast.canon(s.Aud), w.cast.canon(s.Sub)
	if s.Iss < 0 || s.Iss >= lookAlike {
		s.Iss = 0 // an issuer is always a cast member holding a key
	}
	if s.PolFrom != "" {
		// the attenuation idiom: the built policy is the BASE token's statements followed by this
		// plan's own ones, whatever a minimised plan lists in their place; the model reads the same
		if base, ok := w.outbox[s.PolFrom]; ok && base.kind == "dlg" && base.obj != nil && len(base.dspec.Pol) <= len(s.Pol) {
			s.Pol = append(append([]Stmt{}, base.dspec.Pol...), s.Pol[len(base.dspec.Pol):]...)
		}
	}
	o := w.o
	var tk *delegation.Token
	var err error
	_, reusedOpt := sharedOpts[s.ShareOpt]
	if guard(o, "delegation.New", func() { tk, err = buildDelegation(w.cast, *s) }) {
		return
	}
	if s.ShareOpt != "" && reusedOpt && s.Exp != nil && err == nil && tk != nil && tk.Expiration() != nil {
		// a delegation that REUSES an option value "valid for D": its expiry is its own issue time
		// plus the D the option was made with, whatever the plan says after minimisation; the model
		// takes it from the token just built (the EARLIER holders of the option keep their own)
		s.Exp = ptr(tk.Expiration().Unix() - simEpochUnix)
	}
	o.Eval("C10")
	if err != nil || tk == nil {
		o.Logf("delegate %s: constructor refused", s.Label)
		o.Probe("constructor_refused")
		return
	}
	if s.NonceLen > 0 && s.NonceLen < 12 {
		o.Violate("C10", "short-nonce-accepted", fmt.Sprintf("delegation constructor accepted a %d-byte nonce", s.NonceLen), nil)
	}
	wellFormed(o, tk, "constructor")
	// the constructed token carries what was asked for
	if s.Exp != nil && (tk.Expiration() == nil || tk.Expiration().Unix() != simEpochUnix+*s.Exp) {
		o.Violate("C07", "constructor-bound", fmt.Sprintf("delegation %s: expiration %v, asked %d", s.Label, tk.Expiration(), simEpochUnix+*s.Exp), nil)
	}
	if s.Nbf != nil && (tk.NotBefore() == nil || tk.NotBefore().Unix() != simEpochUnix+*s.Nbf) {
		o.Violate("C07", "constructor-bound", fmt.Sprintf("delegation %s: notBefore %v, asked %d", s.Label, tk.NotBefore(), simEpochUnix+*s.Nbf), nil)
	}
	ent := w.cast.ent(s.Iss)
	var sealed []byte
	var c cid.Cid
	if guard(o, "delegation.ToSealed", func() { sealed, c, err = tk.ToSealed(ent.priv) }) {
		return
	}
	if err != nil {
		o.Violate("C07", "seal-failed", fmt.Sprintf("delegation %s by %s cannot be sealed: %v", s.Label, w.cast[s.Iss%len(w.cast)].Alg, err), map[string]string{"alg": w.cast[s.Iss%len(w.cast)].Alg})
		return
	}
	if s.RawNbf != 0 {
		env, oerr := openEnvelope(sealed)
		if oerr != nil {
			return
		}
		env.payload.MapSet("nbf", cbUint(uint64(s.RawNbf)))
		if env.resign(ent.priv) != nil {
			return
		}
		sealed = env.bytes()
		s2 := *s
		s2.Nbf = ptr(s.RawNbf - simEpochUnix)
		a := &artefact{label: s.Label, kind: "dlg", sealed: sealed, cid: harnessCID(sealed), dspec: &s2, bornNS: nowNS()}
		w.outbox[s.Label] = a
		w.ledger[cidHex(a.cid)] = a
		o.Logf("delegate %s (raw not-before) cid=%s len=%d", s.Label, cidHex(a.cid)[:16], len(sealed))
		return
	}
	if s.RawCmd != "" {
		// a deviating issuer signs what no constructor would let through: the command text is
		// rewritten in the sealed bytes and the envelope signed again with the issuer's real key
		env, oerr := openEnvelope(sealed)
		if oerr != nil {
			return
		}
		env.payload.MapSet("cmd", cbText(s.RawCmd))
		if env.resign(ent.priv) != nil {
			return
		}
		sealed = env.bytes()
		// (the plan itself stays as generated: replays and the minimiser execute it again)
		s2 := *s
		s2.Cmd = s.RawCmd
		a := &artefact{label: s.Label, kind: "dlg", sealed: sealed, cid: harnessCID(sealed), dspec: &s2, bornNS: nowNS()}
		w.outbox[s.Label] = a
		w.ledger[cidHex(a.cid)] = a
		o.Logf("delegate %s (raw command) cid=%s len=%d", s.Label, cidHex(a.cid)[:16], len(sealed))
		return
	}
	a := &artefact{label: s.Label, kind: "dlg", sealed: sealed, cid: harnessCID(sealed), dspec: s, obj: tk, bornNS: nowNS()}
	w.outbox[s.Label] = a
	w.ledger[cidHex(a.cid)] = a
	o.Logf("delegate %s cid=%s len=%d", s.Label, cidHex(a.cid)[:16], len(sealed))
	roundTripMonitor(o, tk, sealed, c, w.cast[s.Iss%len(w.cast)].Alg, "dlg")
}

func (w *worldExec) invoke(s *InvSpec) {
	sc := *s
	s = &sc
	s.Iss, s.Aud, s.Sub = w.cast.canon(s.Iss), w.cast.canon(s.Aud), w.cast.canon(s.Sub)
	if s.Iss < 0 || s.Iss >= lookAlike {
		s.Iss = 0 // an issuer is always a cast member holding a key
	}
	o := w.o
	prf := make([]cid.Cid, len(s.Prf))
	for i, l := range s.Prf {
		if a, ok := w.outbox[l]; ok {
			prf[i] = mustCID(a.cid)
		} else {
			prf[i] = missingCID(l)
		}
	}
	var tk *invocation.Token
	var err error
	if guard(o, "invocation.New", func() { tk, err = buildInvocation(w.cast, *s, prf) }) {
		return
	}
	o.Eval("C10")
	if err != nil || tk == nil {
		o.Logf("invoke %s: constructor refused", s.Label)
		o.Probe("constructor_refused")
		return
	}
	if s.NonceLen > 0 && s.NonceLen < 12 {
		o.Violate("C10", "short-nonce-accepted", fmt.Sprintf("invocation constructor accepted a %d-byte nonce", s.NonceLen), nil)
	}
	wellFormed(o, tk, "constructor")
	for _, kv := range s.Args {
		n, gerr := tk.Arguments().GetNode(kv.Key)
		if gerr != nil || !storedEquals(n, kv.V) {
			o.Violate("C10", "argument-altered", fmt.Sprintf("argument %q stored as %s, supplied %s", kv.Key, nodeHex(n), kv.V.canon()), nil)
		}
	}
	if s.Exp != nil && (tk.Expiration() == nil || tk.Expiration().Unix() != simEpochUnix+*s.Exp) {
		o.Violate("C07", "constructor-bound", fmt.Sprintf("invocation %s: expiration %v, asked %d", s.Label, tk.Expiration(), simEpochUnix+*s.Exp), nil)
	}
	ent := w.cast.ent(s.Iss)
	var sealed []byte
	var c cid.Cid
	if guard(o, "invocation.ToSealed", func() { sealed, c, err = tk.ToSealed(ent.priv) }) {
		return
	}
	if err != nil {
		o.Violate("C07", "seal-failed", fmt.Sprintf("invocation %s cannot be sealed: %v", s.Label, err), map[string]string{"alg": w.cast[s.Iss%len(w.cast)].Alg})
		return
	}
	a := &artefact{label: s.Label, kind: "inv", sealed: sealed, cid: harnessCID(sealed), ispec: s, obj: tk, bornNS: nowNS()}
	w.outbox[s.Label] = a
	w.ledger[cidHex(a.cid)] = a
	o.Logf("invoke %s cid=%s len=%d prf=%d", s.Label, cidHex(a.cid)[:16], len(sealed), len(prf))
	roundTripMonitor(o, tk, sealed, c, w.cast[s.Iss%len(w.cast)].Alg, "inv")
}

func (w *worldExec) ship(s *ShipSpec) {
	o := w.o
	wr := container.NewWriter()
	n := 0
	for _, l := range s.Labels {
		if a, ok := w.outbox[l]; ok {
			wr.AddSealed(mustCID(a.cid), a.sealed)
			n++
		}
	}
	if n == 0 {
		o.Logf("ship: nothing to ship")
		return
	}
	base := s.Format
	isB64 := false
	switch s.Format {
	case "carb64":
		base, isB64 = "car", true
	case "cborb64":
		base, isB64 = "cbor", true
	case "car", "cbor":
	default:
		base, s.Format = "cbor", "cbor"
	}
	// write with the real writer (always the binary form; base64 is applied by
	// the transport after entry order has been normalised)
	var raw []byte
	var err error
	if s.WStream {
		sw := newSimWriter(WriteFault{})
		if base == "car" {
			err = wr.ToCarWriter(sw)
		} else {
			err = wr.ToCborWriter(sw)
		}
		raw = sw.Bytes()
	} else if base == "car" {
		raw, err = wr.ToCar()
	} else {
		raw, err = wr.ToCbor()
	}
	if err != nil {
		o.Logf("ship: writer failed")
		return
	}
	// normalise entry order, then apply the structural fault
	var nEntries int
	if base == "car" {
		f, perr := parseCAR(raw)
		if perr != nil || !f.Complete {
			o.Violate("C17", "writer-output-unparseable", "CAR output not parseable", nil)
			return
		}
		f.sortBlocks(s.Perm)
		nEntries = len(f.Blocks)
		if s.Fault == "flip" && nEntries > 0 {
			b := &f.Blocks[s.Entry%nEntries]
			d := append([]byte{}, b.Data...)
			bit := s.Bit % (8 * len(d))
			d[bit/8] ^= 1 << uint(bit%8)
			b.Data = d
			b.CID = harnessCID(d) // a consistent mislabel-free corruption: only the signature can catch it
			o.Fault("ship_bitflip")
		}
		if s.Fault == "relabel" && nEntries >= 2 {
			// two blocks under each other's labels (an inconsistent Writer.AddSealed, a hostile
			// sender): every token is genuine, none sits under its own name
			i := s.Entry % nEntries
			j := (i + 1 + s.Bit%(nEntries-1)) % nEntries
			f.Blocks[i].CID, f.Blocks[j].CID = f.Blocks[j].CID, f.Blocks[i].CID
			o.Fault("ship_relabelled")
		}
		raw = f.Bytes()
	} else {
		es, perr := parseCborContainer(raw)
		if perr != nil {
			o.Violate("C17", "writer-output-unparseable", "CBOR container output not parseable", nil)
			return
		}
		es = sortEntries(es, s.Perm)
		nEntries = len(es)
		if s.Fault == "flip" && nEntries > 0 {
			d := append([]byte{}, es[s.Entry%nEntries]...)
			bit := s.Bit % (8 * len(d))
			d[bit/8] ^= 1 << uint(bit%8)
			es[s.Entry%nEntries] = d
			o.Fault("ship_bitflip")
		}
		raw = buildCborContainer("ctn-v1", es)
	}
	if s.Fault == "trunc" {
		raw = raw[:len(raw)*(s.TruncMille%1000)/1000]
		o.Fault("ship_truncated")
	}
	if s.Fault == "lost" {
		o.Fault("ship_lost")
		o.Logf("ship %v: lost", s.Labels)
		return
	}
	wire := raw
	if isB64 {
		wire = b64(raw)
	}
	times := 1
	if s.Fault == "dup" {
		times = 2
		o.Fault("ship_duplicated")
	}
	for k := 0; k < times; k++ {
		var rd container.Reader
		var rerr error
		entry := "container.From:" + s.Format
		if guard(o, entry, func() {
			var r *simReader
			if s.RStream {
				r = newSimReader(wire, s.Chunks, false, ReadFault{})
			}
			switch {
			case s.Format == "car" && s.RStream:
				rd, rerr = container.FromCarReader(r)
			case s.Format == "car":
				rd, rerr = container.FromCar(wire)
			case s.Format == "cbor" && s.RStream:
				rd, rerr = container.FromCborReader(r)
			case s.Format == "cbor":
				rd, rerr = container.FromCbor(wire)
			case s.Format == "carb64" && s.RStream:
				rd, rerr = container.FromCarBase64Reader(r)
			case s.Format == "carb64":
				rd, rerr = container.FromCarBase64(wire)
			case s.Format == "cborb64" && s.RStream:
				rd, rerr = container.FromCborBase64Reader(r)
			default:
				rd, rerr = container.FromCborBase64(wire)
			}
		}) {
			return
		}
		if rerr != nil {
			o.Logf("ship %v %s fault=%s: rejected", s.Labels, s.Format, s.Fault)
			o.Probe("container_rejected")
			continue
		}
		w.merge(rd, raw, base)
		w.persist()
		o.Logf("ship %v %s fault=%s: %d tokens, store=%d", s.Labels, s.Format, s.Fault, len(rd), len(w.store))
	}
}

func hookFor(c *CheckSpec, failed *bool) func(args.ReadOnly) (*args.Args, error) {
	// an Add that fails is the hook's own failure (no verdict) only if the same Add fails on a
	// fresh, empty collection too (a value the library rightly refuses); if it fails only on what
	// the library handed to the hook, the library let the hook down and the outcome is judged
	legit := func(key string, val any) bool {
		return args.New().Add(key, val) != nil
	}
	return func(ro args.ReadOnly) (*args.Args, error) {
		// a hook that takes its time (a lookup, I/O): whatever the library started before calling it
		// runs until it is done or waits for something (no simulated time passes)
		synctest.Wait()
		if c.HookSleepNS > 0 {
			time.Sleep(time.Duration(c.HookSleepNS))
		}
		switch c.Hook {
		case "nil":
			return nil, nil
		case "fail":
			*failed = true
			return nil, errors.New("dsim: hook failed")
		case "add":
			a := ro.WriteableClone()
			if err := a.Add(c.HookKey, valToGo(*c.HookVal)); err != nil {
				*failed = legit(c.HookKey, valToGo(*c.HookVal))
				return nil, err
			}
			return a, nil
		case "add-include":
			// the same through a fresh collection: Include, then Add
			a := args.New()
			a.Include(ro)
			if err := a.Add(c.HookKey, valToGo(*c.HookVal)); err != nil {
				*failed = legit(c.HookKey, valToGo(*c.HookVal))
				return nil, err
			}
			return a, nil
		case "remove", "replace":
			a := args.New()
			for k, v := range ro.Iter() {
				if k != c.HookKey {
					if err := a.Add(k, v); err != nil {
						*failed = legit(k, v)
						return nil, err
					}
				}
			}
			if c.Hook == "replace" {
				if err := a.Add(c.HookKey, valToGo(*c.HookVal)); err != nil {
					*failed = legit(c.HookKey, valToGo(*c.HookVal))
					return nil, err
				}
			}
			return a, nil
		}
		return ro.WriteableClone(), nil
	}
}

func hookedArgs(c *CheckSpec, in []KV) []KV {
	var out []KV
	switch c.Hook {
	case "add", "add-include":
		out = append(append(out, in...), KV{c.HookKey, *c.HookVal})
	case "remove", "replace":
		for _, kv := range in {
			if kv.Key != c.HookKey {
				out = append(out, kv)
			}
		}
		if c.Hook == "replace" {
			out = append(out, KV{c.HookKey, *c.HookVal})
		}
	default:
		out = in
	}
	return out
}

type decision struct {
	ran     bool
	allowed bool
	verdict chainVerdict
}

// decideOne runs the real decision for one delivered invocation and holds it
// against the model.
// builtLoader hands out, for every delegation the store holds, the object as it was
// constructed (same CID, never decoded).
type builtLoader struct{ w *worldExec }

func (b builtLoader) GetDelegation(c cid.Cid) (*delegation.Token, error) {
	d, err := b.w.store.GetDelegation(c)
	if err != nil || d == nil {
		return d, err
	}
	if rec, ok := b.w.ledger[cidHex(c.Bytes())]; ok && rec.kind == "dlg" {
		if obj, ok := rec.obj.(*delegation.Token); ok && obj != nil {
			return obj, nil
		}
	}
	return d, nil
}

// jsonLoader hands out, for every delegation the store holds, the object obtained by decoding
// the DAG-JSON form of the constructed token (same content, another decoder, another signature
// over the same payload where the algorithm is randomised).
type jsonLoader struct{ w *worldExec }

func (b jsonLoader) GetDelegation(c cid.Cid) (*delegation.Token, error) {
	d, err := b.w.store.GetDelegation(c)
	if err != nil || d == nil {
		return d, err
	}
	if rec, ok := b.w.ledger[cidHex(c.Bytes())]; ok && rec.kind == "dlg" {
		if obj, ok := rec.obj.(*delegation.Token); ok && obj != nil {
			var out *delegation.Token
			guard(b.w.o, "delegation.FromDagJson", func() {
				js, jerr := obj.ToDagJson(b.w.cast.ent(rec.dspec.Iss).priv)
				if jerr != nil {
					return
				}
				if dj, derr := delegation.FromDagJson(js); derr == nil && dj != nil {
					out = dj
				}
			})
			if out != nil {
				return out, nil
			}
		}
	}
	return d, nil
}

// streamLoader is an executor that received every delegation of its store as a stream of its own
// (a source that hands over its last chunk together with io.EOF, as HTTP bodies do) and filed it
// under the CID the stream reader reported.
type streamLoader struct {
	w     *worldExec
	byCID map[string]*delegation.Token
}

func (b *streamLoader) GetDelegation(c cid.Cid) (*delegation.Token, error) {
	if b.byCID == nil {
		b.byCID = map[string]*delegation.Token{}
		for want := range b.w.store {
			rec, ok := b.w.ledger[cidHex(want.Bytes())]
			if !ok || rec.kind != "dlg" {
				continue
			}
			guard(b.w.o, "delegation.FromSealedReader", func() {
				if d, got, err := delegation.FromSealedReader(newSimReader(rec.sealed, []int{64}, true, ReadFault{})); err == nil && d != nil {
					b.byCID[cidHex(got.Bytes())] = d
				}
			})
		}
	}
	if d, ok := b.byCID[cidHex(c.Bytes())]; ok {
		return d, nil
	}
	return nil, delegation.ErrDelegationNotFound
}

func (w *worldExec) decideOne(label string, c *CheckSpec, useHook bool) decision {
	return w.decideProv(label, c, useHook, "")
}

func (w *worldExec) decideProv(label string, c *CheckSpec, useHook bool, prov string) decision {
	o := w.o
	a, ok := w.outbox[label]
	if !ok || a.kind != "inv" {
		return decision{}
	}
	inv, ok := w.inbox[cidHex(a.cid)]
	if !ok {
		o.Probe("invocation_not_at_executor")
		return decision{}
	}
	spec := a.ispec
	var inner delegation.Loader = w.store
	if prov == "inv-built" || prov == "all-built" {
		obj, ok := a.obj.(*invocation.Token)
		if !ok || obj == nil {
			return decision{}
		}
		inv = obj
	}
	if prov == "dlg-built" || prov == "all-built" {
		inner = builtLoader{w}
	}
	if prov == "inv-json" || prov == "all-json" {
		obj, ok := a.obj.(*invocation.Token)
		if !ok || obj == nil {
			return decision{}
		}
		var ij *invocation.Token
		guard(o, "invocation.FromDagJson", func() {
			js, jerr := obj.ToDagJson(w.cast.ent(spec.Iss).priv)
			if jerr != nil {
				return
			}
			if x, derr := invocation.FromDagJson(js); derr == nil {
				ij = x
			}
		})
		if ij == nil {
			return decision{}
		}
		inv = ij
	}
	if prov == "dlg-json" || prov == "all-json" {
		inner = jsonLoader{w}
	}
	if prov == "dlg-stream" {
		inner = &streamLoader{w: w}
	}
	ld := &faultLoader{inner: inner, faults: c.LFaults, o: o}
	ld.swap = func(label string) (*delegation.Token, string) {
		a, ok := w.outbox[label]
		if !ok || a.kind != "dlg" {
			return nil, ""
		}
		t, err := inner.GetDelegation(mustCID(a.cid))
		if err != nil || t == nil {
			return nil, ""
		}
		return t, cidHex(a.cid)
	}
	var err error
	hookFailed := false
	entry := "ExecutionAllowed"
	if useHook {
		entry = "ExecutionAllowedWithArgsHook"
	}
	outOfContract := false
	for _, f := range c.LFaults {
		if f.Kind == "nilnil" || f.Kind == "panic" {
			outOfContract = true
		}
	}
	// a hook that returns neither arguments nor an error ("nothing to change") is outside the hook
	// contract as well: a panic or a refusal is tolerated, an allowed invocation is held against the
	// model like any other
	tolerantHook := useHook && c.Hook == "nil"
	if outOfContract || tolerantHook {
		// a loader that breaks its contract may make the call panic (that is the caller's bug, not
		// a finding); what it must never do is get the invocation allowed
		panicked := false
		func() {
			defer func() {
				if r := recover(); r != nil {
					panicked = true
				}
			}()
			if useHook {
				err = inv.ExecutionAllowedWithArgsHook(ld, hookFor(c, &hookFailed))
			} else {
				err = inv.ExecutionAllowed(ld)
			}
		}()
		if panicked {
			o.Probe("panic_on_out_of_contract_loader")
			o.Logf("check %s %s: loader broke its contract, the call panicked (tolerated)", label, entry)
			return decision{}
		}
		if !ld.broken {
			outOfContract = false // (the faulty call was never made)
		}
		if tolerantHook && err != nil {
			return decision{} // refused: no verdict on completeness
		}
	} else if guard(o, entry, func() {
		if useHook {
			err = inv.ExecutionAllowedWithArgsHook(ld, hookFor(c, &hookFailed))
		} else {
			err = inv.ExecutionAllowed(ld)
		}
	}) {
		return decision{}
	}
	allowed := err == nil
	if outOfContract && allowed {
		o.Violate("C01", "principals", fmt.Sprintf("%s allowed although the loader handed out no delegation for a proof (it returned neither a delegation nor an error, or panicked)", label), map[string]string{"entry": entry, "loader": "out-of-contract"})
		return decision{}
	}
	if outOfContract {
		o.Eval("C01")
		return decision{} // refused: whatever the reason given
	}
	tNS := nowNS()

	// model: exactly the delegations the loader returned during this call
	dl := make([]*DlgSpec, len(spec.Prf))
	allLoaded := len(spec.Prf) > 0
	for i := range spec.Prf {
		if i < len(ld.got) && ld.got[i].ok {
			if rec, ok := w.ledger[ld.got[i].cid]; ok && rec.kind == "dlg" {
				dl[i] = rec.dspec
			} else {
				// cannot happen: proof CIDs are ledger CIDs (or CIDs nobody stored)
				o.Harness("loader returned a delegation whose bytes are not in the ledger")
			}
		}
		if dl[i] == nil {
			allLoaded = false
		}
	}
	// completeness needs "all delegations loadable", which is a fact about the store, not about
	// which of them the implementation chose to ask for: with no loader fault configured, a proof
	// is loadable iff the executor's store holds it
	if len(c.LFaults) == 0 && len(spec.Prf) > 0 {
		allLoaded = true
		for i, l := range spec.Prf {
			a, ok := w.outbox[l]
			if !ok || a.kind != "dlg" {
				allLoaded = false
				break
			}
			if d, err := w.store.GetDelegation(mustCID(a.cid)); err != nil || d == nil {
				allLoaded = false
				break
			}
			if dl[i] == nil {
				dl[i] = a.dspec
			}
		}
	}
	margs := spec.Args
	if useHook {
		margs = hookedArgs(c, spec.Args)
	}
	v := decide(*spec, dl, Val{K: "map", M: margs}, tNS)

	audKind := "unset"
	switch {
	case spec.Aud < 0:
	case spec.Aud == spec.Sub:
		audKind = "subject"
	case spec.Aud == spec.Iss:
		audKind = "invoker"
	default:
		audKind = "other"
	}
	attrs := map[string]string{"aud": audKind, "hook": c.Hook, "entry": entry}
	if prov != "" {
		attrs["prov"] = prov
		o.Probe("decision_on_" + prov)
		// constructed tokens keep sub-second bounds the model (whole seconds, as sealed) does
		// not know: no window verdict within a second of any bound
		near := func(b *int64) bool {
			return b != nil && *b < 9_000_000_000 && *b > -9_000_000_000 && abs64(tNS-*b*1_000_000_000) <= 1_000_000_000
		}
		nb := near(spec.Exp)
		for _, d := range dl {
			if d != nil && (near(d.Nbf) || near(d.Exp)) {
				nb = true
			}
		}
		if nb {
			v.Wsound, v.Wstrict = true, false
		}
	}
	o.Logf("check %s %s%s t=%d allowed=%v P=%v K=%v Q=%v Ws=%v Wt=%v loads=%d", label, entry, prov, tNS, allowed, v.P, v.K, v.Q, v.Wsound, v.Wstrict, len(ld.got))
	for _, p := range []string{"C01", "C02", "C03", "C04", "C05"} {
		o.Eval(p)
	}
	if allowed {
		if hookFailed {
			o.Violate("C03", "failed-hook-allowed", "argument hook returned an error and the invocation was allowed", attrs)
		}
		if !v.P {
			o.Violate("C01", "principals", "allowed although "+v.whyP, attrs)
		}
		if v.P && !v.K {
			o.Violate("C02", "commands", "allowed although "+v.whyK, attrs)
		}
		if v.P && !v.Q && v.Qdefinite {
			o.Violate("C03", "policies", "allowed although "+v.whyQ, attrs)
		}
		if v.P && !v.Wsound {
			o.Violate("C04", "chain-window", "allowed although "+v.whyW, attrs)
		}
	} else if v.P && v.K && v.Q && v.Qdefinite && v.Wstrict && allLoaded && !(useHook && c.Hook == "fail") && !hookFailed {
		// (a hook of the plan that is not meant to fail and fails all the same - adding a fresh key
		// to a writeable clone, re-adding the token's own values - was let down by the library: the
		// conforming chain stays denied, which is what is reported)
		o.Violate("C05", "completeness", fmt.Sprintf("conforming chain denied: %v", err), attrs)
	}

	// abstract run signatures (DESIGN section 4)
	nl := len(spec.Prf)
	lf := ""
	for _, f := range c.LFaults {
		lf += fmt.Sprintf("%s@%d,", f.Kind, f.Call)
	}
	o.Sig("C01", nl, v.P, v.whyP, lf, audKind, allowed)
	rels := ""
	cur := spec.Cmd
	for _, d := range dl {
		if d != nil {
			rels += cmdRelation(d.Cmd, cur) + ","
			cur = d.Cmd
		}
	}
	o.Sig("C02", nl, rels, allowed)
	pc := ""
	kinds := map[string]bool{}
	for _, d := range dl {
		if d != nil {
			pc += fmt.Sprint(len(d.Pol)) + ","
			stmtKinds(d.Pol, kinds)
		}
	}
	ks := []string{}
	for k := range kinds {
		ks = append(ks, k)
	}
	sort.Strings(ks)
	o.Sig("C03", pc, v.whyQ, c.Hook, useHook, allowed, ks)
	wsig := relSig(tNS, nil, spec.Exp)
	for _, d := range dl {
		if d != nil {
			wsig += "/" + relSig(tNS, d.Nbf, d.Exp)
		}
	}
	o.Sig("C04", wsig, allowed)
	if !v.Qdefinite {
		o.Probe("policy_verdict_indefinite")
	}
	if v.P && v.K && v.Q && v.Qdefinite && v.Wstrict {
		o.Sig("C05", nl, repPattern(spec, dl), audKind, spec.Iat, spec.Exp != nil, len(spec.Meta), spec.Cause, spec.NonceLen, c.Hook, useHook, prov)
	}
	return decision{ran: true, allowed: allowed, verdict: v}
}

func relSig(tNS int64, nbf, exp *int64) string {
	s := ""
	for _, b := range []*int64{nbf, exp} {
		if b == nil {
			s += "-"
		} else {
			s += []string{"b", "=", "a"}[relTo(tNS, *b)+1]
		}
	}
	return s
}

func repPattern(inv *InvSpec, dl []*DlgSpec) string {
	ids := map[int]int{}
	s := ""
	add := func(p int) {
		if _, ok := ids[p]; !ok {
			ids[p] = len(ids)
		}
		s += fmt.Sprint(ids[p])
	}
	add(inv.Sub)
	add(inv.Iss)
	for _, d := range dl {
		if d != nil {
			add(d.Iss)
		}
	}
	return s
}

func (w *worldExec) check(c *CheckSpec) {
	d0 := w.decideOne(c.Inv, c, false)
	w.decideOne(c.Inv, c, true)
	if c.Hook == "add" || c.Hook == "add-include" || c.Hook == "replace" {
		// the same hook once more on the same token object: what the first evaluation's hook did to
		// its writeable clone must not have reached the token
		w.decideOne(c.Inv, c, true)
	}
	if c.Prov != "" {
		w.decideProv(c.Inv, c, false, c.Prov)
		w.decideProv(c.Inv, c, true, c.Prov)
	}
	if !d0.ran {
		return
	}
	for _, vl := range c.Variants {
		if !w.sameButAudience(c.Inv, vl) {
			continue // (a minimiser candidate may have broken the relation)
		}
		dv := w.decideOne(vl, c, false)
		if dv.ran {
			w.o.Eval("C01")
			if dv.allowed != d0.allowed {
				w.o.Violate("C01", "audience-influence", fmt.Sprintf("%s allowed=%v but audience variant %s allowed=%v at the same instant against the same store", c.Inv, d0.allowed, vl, dv.allowed), nil)
			}
		}
	}
}

func (w *worldExec) sameButAudience(l1, l2 string) bool {
	a, ok1 := w.outbox[l1]
	b, ok2 := w.outbox[l2]
	if !ok1 || !ok2 || a.kind != "inv" || b.kind != "inv" {
		return false
	}
	x, y := *a.ispec, *b.ispec
	x.Label, y.Label, x.Aud, y.Aud, x.Relative, y.Relative = "", "", 0, 0, false, false
	xb, _ := json.Marshal(x)
	yb, _ := json.Marshal(y)
	return bytes.Equal(xb, yb)
}

// probe is the single-token clause of C04: validity at chosen instants on
// either side of each bound, on the token as constructed (sub-second bounds)
// and as decoded (whole seconds).
func (w *worldExec) probe(p *ProbeSpec) {
	o := w.o
	a, ok := w.outbox[p.Label]
	if !ok {
		return
	}
	var nbf, exp *int64
	sub := int64(0)
	if a.kind == "dlg" {
		nbf, exp, sub = a.dspec.Nbf, a.dspec.Exp, a.dspec.SubMilli
	} else {
		exp = a.ispec.Exp
	}
	dec, _, err := token.FromSealed(a.sealed)
	if err != nil {
		dec = nil
	}
	toNS := func(b *int64, ms int64) *int64 {
		if b == nil {
			return nil
		}
		// (bounds beyond +/-292 years from the simulation epoch do not fit in int64 nanoseconds:
		// every representable instant lies before / after them)
		v := *b*1_000_000_000 + ms*1_000_000
		if *b > 9_000_000_000 {
			v = math.MaxInt64
		} else if *b < -9_000_000_000 {
			v = math.MinInt64
		}
		return &v
	}
	rel := func(t int64, nb, ex *int64) (in, out bool) {
		in, out = true, false
		if nb != nil {
			if t < *nb {
				in, out = false, true
			} else if t == *nb {
				in = false
			}
		}
		if ex != nil {
			if t > *ex {
				in, out = false, true
			} else if t == *ex {
				in = false
			}
		}
		return
	}
	one := func(tk token.Token, form string, nb, ex *int64, t int64, now bool) {
		var got bool
		call := "IsValidAt"
		if now {
			call = "IsValidNow"
			if guard(o, call, func() { got = tk.IsValidNow() }) {
				return
			}
		} else if guard(o, call, func() { got = tk.IsValidAt(time.Unix(simEpochUnix, 0).Add(time.Duration(t))) }) {
			return
		}
		in, out := rel(t, nb, ex)
		o.Eval("C04")
		o.Sig("C04", "single", a.kind, form, nb != nil, ex != nil, in, out, call)
		if in && !got {
			o.Violate("C04", "single-token", fmt.Sprintf("%s (%s, %s) invalid at t=%dns strictly inside its window", p.Label, form, call, t), map[string]string{"form": form})
		}
		if out && got {
			o.Violate("C04", "single-token", fmt.Sprintf("%s (%s, %s) valid at t=%dns strictly outside its window", p.Label, form, call, t), map[string]string{"form": form})
		}
	}
	// (a token whose bytes a deviating issuer rewrote after construction exists only as bytes)
	hasObj := a.obj != nil
	o.Logf("probe %s n=%d", p.Label, len(p.AtNS))
	for _, t := range p.AtNS {
		if hasObj {
			one(a.obj, "constructed", toNS(nbf, sub), toNS(exp, sub), t, false)
		}
		if dec != nil {
			one(dec, "decoded", toNS(nbf, 0), toNS(exp, 0), t, false)
		}
	}
	// instants far from everything (centuries before and after: beyond what fits in int64
	// nanoseconds since 1970), by whole seconds
	far := func(tk token.Token, form string) {
		for _, sec := range []int64{9_500_000_000, 20_000_000_000, 250_000_000_000, -12_000_000_000, -63_082_281_600, -200_000_000_000} {
			var got bool
			if guard(o, "IsValidAt", func() { got = tk.IsValidAt(time.Unix(simEpochUnix+sec, 0)) }) {
				return
			}
			in, out := true, false
			if nbf != nil {
				if sec < *nbf {
					in, out = false, true
				} else if sec <= *nbf+1 {
					in = false
				}
			}
			if exp != nil {
				if sec > *exp+1 {
					in, out = false, true
				} else if sec >= *exp {
					in = false
				}
			}
			o.Eval("C04")
			o.Sig("C04", "single-far", a.kind, form, nbf != nil, exp != nil, in, out, sec > 0)
			if in && !got {
				o.Violate("C04", "single-token", fmt.Sprintf("%s (%s) invalid at an instant %d s from the epoch, strictly inside its window", p.Label, form, sec), map[string]string{"form": form, "instant": "far"})
			}
			if out && got {
				o.Violate("C04", "single-token", fmt.Sprintf("%s (%s) valid at an instant %d s from the epoch, strictly outside its window", p.Label, form, sec), map[string]string{"form": form, "instant": "far"})
			}
		}
	}
	if hasObj {
		far(a.obj, "constructed")
	}
	if dec != nil {
		far(dec, "decoded")
	}
	if hasObj {
		one(a.obj, "constructed", toNS(nbf, sub), toNS(exp, sub), nowNS(), true)
	}
	if dec != nil {
		one(dec, "decoded", toNS(nbf, 0), toNS(exp, 0), nowNS(), true)
	}
}

func init() {
	register(&ScenarioDef{
		Name:  "world",
		Props: []string{"C01", "C02", "C03", "C04", "C05", "C07", "C08", "C09", "C10"},
		Gen:   genWorld,
		Exec:  execWorld,
		Decode: func(b []byte) (Plan, error) {
			var p WorldPlan
			if err := json.Unmarshal(b, &p); err != nil {
				return nil, err
			}
			return &p, nil
		},
	})
}

func abs64(x int64) int64 {
	if x < 0 {
		return -x
	}
	return x
}
