package sim

import (
	"encoding/json"
	"fmt"
	"os"
	"os/exec"
	"sort"
	"strings"
	"testing"
	"testing/cryptotest"
	"time"
)

// ---------------------------------------------------------------------------
// Outcome of one simulated run

type Violation struct {
	Prop   string            `json:"property"`
	Clause string            `json:"clause"`
	Detail string            `json:"detail"`
	Attrs  map[string]string `json:"attrs,omitempty"`
	Known  string            `json:"known,omitempty"` // key of the matching known finding, if any
}

// Key identifies the violation class used by the minimiser and for
// de-duplication: a candidate is accepted only if it still shows a violation
// with the same key.
func (v Violation) Key() string {
	return v.Prop + "/" + v.Clause + "/" + v.Known
}

type Outcome struct {
	inLib    string // the guarded library call in progress (see guard)
	log      []string
	keepLog  bool
	logHash  uint64
	logCount int

	Viol   []Violation
	Sigs   map[string]map[uint64]struct{}
	Evals  map[string]int
	Faults map[string]int
	Probes map[string]int
	SimSec float64

	HarnessErr string
	Aborted    bool // a call hung: the rest of the run was skipped
}

func NewOutcome(keepLog bool) *Outcome {
	return &Outcome{
		keepLog: keepLog,
		logHash: 14695981039346656037,
		Sigs:    map[string]map[uint64]struct{}{},
		Evals:   map[string]int{},
		Faults:  map[string]int{},
		Probes:  map[string]int{},
	}
}

// Logf appends an event to the event log. The log is what the determinism
// self-test compares: it never contains wall-clock times, pointers or
// anything drawn from a map iteration.
func (o *Outcome) Logf(format string, a ...any) {
	s := fmt.Sprintf(format, a...)
	for i := 0; i < len(s); i++ {
		o.logHash ^= uint64(s[i])
		o.logHash *= 1099511628211
	}
	o.logHash ^= 0xff
	o.logHash *= 1099511628211
	o.logCount++
	if o.keepLog {
		o.log = append(o.log, s)
	}
}

func (o *Outcome) LogHash() string { return fmt.Sprintf("%016x", o.logHash) }
func (o *Outcome) Log() []string   { return o.log }

func (o *Outcome) Violate(prop, clause, detail string, attrs map[string]string) {
	v := Violation{Prop: prop, Clause: clause, Detail: detail, Attrs: attrs}
	v.Known = matchKnown(v)
	o.Viol = append(o.Viol, v)
	o.Logf("VIOLATION %s/%s %s", prop, clause, detail)
}

// ViolateQuiet records a violation whose occurrence depends on real time or
// on sampled memory: it is kept out of the event log so that the determinism
// self-test compares only what is deterministic.
func (o *Outcome) ViolateQuiet(prop, clause, detail string, attrs map[string]string) {
	v := Violation{Prop: prop, Clause: clause, Detail: detail, Attrs: attrs}
	v.Known = matchKnown(v)
	o.Viol = append(o.Viol, v)
}

// Sig records that the oracle of prop was evaluated on a non-trivial case with
// the given abstract signature.
func (o *Outcome) Sig(prop string, parts ...any) {
	m := o.Sigs[prop]
	if m == nil {
		m = map[uint64]struct{}{}
		o.Sigs[prop] = m
	}
	m[fnv64(fmt.Sprint(parts...))] = struct{}{}
}

func (o *Outcome) Eval(prop string)   { o.Evals[prop]++ }
func (o *Outcome) Fault(kind string)  { o.Faults[kind]++ }
func (o *Outcome) Probe(name string)  { o.Probes[name]++ }
func (o *Outcome) Harness(msg string) { o.HarnessErr = msg; o.Logf("HARNESS %s", msg) }

// ---------------------------------------------------------------------------
// Plans and scenarios

// Plan is the explicit, JSON-serialisable description of one run: swarm
// configuration plus a list of steps with concrete arguments. Executing a plan
// draws no random numbers.
type Plan interface {
	Len() int                // number of deletable steps
	Keep(keep []bool) Plan   // the plan restricted to the kept steps
	Simpler() []Plan         // one-change simplifications of this plan
	Summary() map[string]any // short description for evidence samples
}

type GenCfg struct {
	Focus string // property id the generator is biased towards
	Tier  string
	Index uint64
}

type ScenarioDef struct {
	Name   string
	Props  []string // properties whose oracles this scenario evaluates
	Gen    func(r *Rand, g GenCfg) Plan
	Exec   func(t *testing.T, p Plan, seed uint64, o *Outcome)
	Decode func(b []byte) (Plan, error)
	Fresh  bool // every replay / minimiser candidate needs a fresh process (race reports are de-duplicated per process)
}

var scenarios = map[string]*ScenarioDef{}

func register(d *ScenarioDef) { scenarios[d.Name] = d }

// RunPlan executes a plan in the current process under the deterministic
// randomness seam. Scenario executors create their own synctest bubbles.
func RunPlan(t *testing.T, d *ScenarioDef, p Plan, seed uint64, keepLog bool) *Outcome {
	o := NewOutcome(keepLog)
	cryptotest.SetGlobalRandom(t, seed)
	func() {
		defer func() {
			if r := recover(); r != nil {
				if msg := fmt.Sprint(r); strings.Contains(msg, "all goroutines in bubble are blocked") && o.inLib != "" {
					// the simulation's only runnable goroutine is inside a library call, and that call
					// waits for something no goroutine will ever provide: it never returns
					o.Violate("C09", "no-termination", fmt.Sprintf("%s never returns: every goroutine it started or waits for is blocked for good", o.inLib), map[string]string{"entry": o.inLib})
					return
				}
				o.Harness(fmt.Sprintf("panic outside a guarded library call: %v", r))
			}
		}()
		d.Exec(t, p, seed, o)
	}()
	return o
}

// ---------------------------------------------------------------------------
// Known findings

type KnownFinding struct {
	Property string            `json:"property"`
	Key      string            `json:"key"`
	Status   string            `json:"status"` // "known" | "fixed"
	Clause   string            `json:"clause"`
	Attrs    map[string]string `json:"attrs,omitempty"`
	What     string            `json:"what"`
	Commit   string            `json:"commit,omitempty"`
}

var knownFindings []KnownFinding

func LoadKnownFindings(path string) error {
	b, err := os.ReadFile(path)
	if err != nil {
		if os.IsNotExist(err) {
			return nil
		}
		return err
	}
	var f struct {
		Findings []KnownFinding `json:"findings"`
	}
	if err := json.Unmarshal(b, &f); err != nil {
		return err
	}
	knownFindings = f.Findings
	return nil
}

func matchKnown(v Violation) string {
	for _, k := range knownFindings {
		if k.Status != "known" || k.Property != v.Prop || k.Clause != v.Clause {
			continue
		}
		ok := true
		for a, want := range k.Attrs {
			if v.Attrs[a] != want {
				ok = false
				break
			}
		}
		if ok {
			return k.Key
		}
	}
	return ""
}

func KnownWhat(key string) string {
	for _, k := range knownFindings {
		if k.Key == key {
			return k.What
		}
	}
	return key
}

// ---------------------------------------------------------------------------
// Replay files

type ReplayFile struct {
	Scenario       string          `json:"scenario"`
	Property       string          `json:"property"`
	Clause         string          `json:"clause"`
	Known          string          `json:"known,omitempty"`
	BaseSeed       uint64          `json:"base_seed"`
	RunIndex       uint64          `json:"run_index"`
	Seed           uint64          `json:"seed"`
	LogHash        string          `json:"log_hash"`
	Violation      Violation       `json:"violation"`
	OriginalSteps  int             `json:"original_steps"`
	MinimisedSteps int             `json:"minimised_steps"`
	Candidates     int             `json:"minimiser_candidates"`
	Plan           json.RawMessage `json:"plan"`
	Log            []string        `json:"event_log,omitempty"`
}

func hasKey(o *Outcome, key string) *Violation {
	for i := range o.Viol {
		if o.Viol[i].Key() == key {
			return &o.Viol[i]
		}
	}
	return nil
}

// Minimise shrinks a failing plan: ddmin over the step list, then repeated
// single-change simplification, accepting a candidate only if the same
// violation class persists. Every candidate is one in-process execution.
func Minimise(t *testing.T, d *ScenarioDef, p Plan, seed uint64, key string, maxCand int, maxWall time.Duration) (Plan, int) {
	start := time.Now()
	cand := 0
	fails := func(q Plan) bool {
		cand++
		if d.Fresh {
			keys, err := probeFresh(d, q, seed)
			return err == nil && keys[key]
		}
		o := RunPlan(t, d, q, seed, false)
		return o.HarnessErr == "" && hasKey(o, key) != nil
	}
	over := func() bool { return cand >= maxCand || time.Since(start) > maxWall }

	// ddmin
	n := 2
	for p.Len() >= 2 && !over() {
		l := p.Len()
		if n > l {
			n = l
		}
		chunk := (l + n - 1) / n
		reduced := false
		// try removing each chunk (complement testing)
		for s := 0; s < l && !over(); s += chunk {
			keep := make([]bool, l)
			for i := range keep {
				keep[i] = i < s || i >= s+chunk
			}
			q := p.Keep(keep)
			if q.Len() < l && fails(q) {
				p = q
				if n > 2 {
					n--
				}
				reduced = true
				break
			}
		}
		if !reduced {
			if n >= l {
				break
			}
			n *= 2
		}
	}
	// one-at-a-time removal until 1-minimal
	for again := true; again && !over(); {
		again = false
		for i := 0; i < p.Len() && !over(); i++ {
			keep := make([]bool, p.Len())
			for j := range keep {
				keep[j] = j != i
			}
			if q := p.Keep(keep); fails(q) {
				p = q
				again = true
				i--
			}
		}
	}
	// simplification to fixpoint
	for changed := true; changed && !over(); {
		changed = false
		for _, q := range p.Simpler() {
			if over() {
				break
			}
			if fails(q) {
				p = q
				changed = true
				break
			}
		}
	}
	return p, cand
}

// probeFresh executes a plan in a fresh copy of this worker process and
// returns the violation keys it showed.
func probeFresh(d *ScenarioDef, q Plan, seed uint64) (map[string]bool, error) {
	dir, err := os.MkdirTemp(currentJob.ReplayDir, "probe-")
	if err != nil {
		return nil, err
	}
	defer os.RemoveAll(dir)
	pj, _ := json.Marshal(q)
	rf := ReplayFile{Scenario: d.Name, Seed: seed, Plan: pj}
	rb, _ := json.Marshal(rf)
	rpath := dir + "/plan.json"
	os.WriteFile(rpath, rb, 0o644)
	job := *currentJob
	job.Mode, job.Replay, job.Out = "probe", rpath, dir+"/res.json"
	jb, _ := json.Marshal(job)
	os.WriteFile(dir+"/job.json", jb, 0o644)
	exe, err := os.Executable()
	if err != nil {
		return nil, err
	}
	cmd := exec.Command(exe, "-test.run", "^TestWorker$", "-test.cpu", "1")
	cmd.Env = append(os.Environ(), "DSIM_JOB="+dir+"/job.json")
	for i, e := range cmd.Env {
		if strings.HasPrefix(e, "GORACE=") {
			cmd.Env[i] = "GORACE=halt_on_error=0 atexit_sleep_ms=0 log_path=" + dir + "/race"
		}
	}
	if out, err := cmd.CombinedOutput(); err != nil {
		return nil, fmt.Errorf("probe process failed: %v: %s", err, out)
	}
	b, err := os.ReadFile(job.Out)
	if err != nil {
		return nil, err
	}
	var res Result
	if err := json.Unmarshal(b, &res); err != nil {
		return nil, err
	}
	keys := map[string]bool{}
	for k := range res.ViolCount {
		keys[k] = true
	}
	return keys, nil
}

var currentJob *Job

// ---------------------------------------------------------------------------
// Worker jobs

type Job struct {
	Mode      string   `json:"mode"` // "batch" | "replay"
	Scenario  string   `json:"scenario"`
	Focus     string   `json:"focus"`
	Tier      string   `json:"tier"`
	BaseSeed  uint64   `json:"base_seed"`
	From      uint64   `json:"from"`
	To        uint64   `json:"to"`
	Out       string   `json:"out"`
	ReplayDir string   `json:"replay_dir"`
	Replay    string   `json:"replay,omitempty"`
	Known     string   `json:"known_findings"`
	MaxWallS  float64  `json:"max_wall_s"`
	SelfTest  int      `json:"selftest_every"` // every n-th run is executed twice and the log hashes compared
	Report    []string `json:"report"`         // properties whose violations get minimised and saved
	NoMin     bool     `json:"no_minimise,omitempty"`
	HashesOut string   `json:"hashes_out,omitempty"` // determinism self-test: write "index hash" lines
}

type ViolationReport struct {
	Violation Violation `json:"violation"`
	Replay    string    `json:"replay"`
	Steps     int       `json:"steps"`
	Seed      uint64    `json:"seed"`
	RunIndex  uint64    `json:"run_index"`
}

type Result struct {
	Scenario     string              `json:"scenario"`
	Runs         int                 `json:"runs"`
	WallS        float64             `json:"wall_s"`
	Evals        map[string]int      `json:"evals"`
	Sigs         map[string][]uint64 `json:"sigs"`
	Faults       map[string]int      `json:"faults"`
	Probes       map[string]int      `json:"probes"`
	SimSec       float64             `json:"sim_seconds"`
	Violations   []ViolationReport   `json:"violations"`
	ViolCount    map[string]int      `json:"violation_counts"` // by key, all runs
	Samples      []map[string]any    `json:"samples"`
	SelfTests    int                 `json:"selftests"`
	HarnessErr   string              `json:"harness_error,omitempty"`
	Replayed     *ReplayResult       `json:"replayed,omitempty"`
	Unreproduced []string            `json:"unreproduced,omitempty"`
	FirstSeed    uint64              `json:"first_seed"`
	LastSeed     uint64              `json:"last_seed"`
}

type ReplayResult struct {
	Reproduced bool   `json:"reproduced"`
	SameHash   bool   `json:"same_hash"`
	LogHash    string `json:"log_hash"`
	Key        string `json:"key"`
	Detail     string `json:"detail"`
}

func inList(xs []string, x string) bool {
	for _, y := range xs {
		if y == x {
			return true
		}
	}
	return false
}

func RunJob(t *testing.T, job *Job) *Result {
	res := &Result{
		Scenario:  job.Scenario,
		Evals:     map[string]int{},
		Sigs:      map[string][]uint64{},
		Faults:    map[string]int{},
		Probes:    map[string]int{},
		ViolCount: map[string]int{},
	}
	if err := LoadKnownFindings(job.Known); err != nil {
		res.HarnessErr = "known findings: " + err.Error()
		return res
	}
	d := scenarios[job.Scenario]
	if d == nil {
		res.HarnessErr = "unknown scenario " + job.Scenario
		return res
	}
	currentJob = job
	start := time.Now()
	if job.Mode == "probe" {
		// execute one plan, report the violation keys, nothing else
		b, err := os.ReadFile(job.Replay)
		if err != nil {
			res.HarnessErr = err.Error()
			return res
		}
		var rf ReplayFile
		if err := json.Unmarshal(b, &rf); err != nil {
			res.HarnessErr = err.Error()
			return res
		}
		plan, err := d.Decode(rf.Plan)
		if err != nil {
			res.HarnessErr = err.Error()
			return res
		}
		o := RunPlan(t, d, plan, rf.Seed, false)
		res.Runs = 1
		res.HarnessErr = o.HarnessErr
		for _, v := range o.Viol {
			res.ViolCount[v.Key()]++
		}
		return res
	}
	if job.Mode == "selfdiff" {
		// debugging aid: execute the run of index From twice with full logs and report the first difference
		seed := RunSeed(job.BaseSeed, job.Scenario, job.From)
		cfg := GenCfg{Focus: job.Focus, Tier: job.Tier, Index: job.From}
		for rep := 0; rep < 20; rep++ {
			o1 := RunPlan(t, d, d.Gen(NewRand(seed), cfg), seed, true)
			o2 := RunPlan(t, d, d.Gen(NewRand(seed), cfg), seed, true)
			if o1.LogHash() != o2.LogHash() {
				l1, l2 := o1.Log(), o2.Log()
				for i := 0; i < len(l1) && i < len(l2); i++ {
					if l1[i] != l2[i] {
						res.HarnessErr = fmt.Sprintf("rep %d line %d differs:\n  %s\n  %s", rep, i, l1[i], l2[i])
						return res
					}
				}
				res.HarnessErr = fmt.Sprintf("rep %d: log lengths differ %d vs %d", rep, len(l1), len(l2))
				return res
			}
		}
		res.HarnessErr = "no difference in 20 double executions"
		return res
	}
	if job.Mode == "minimise" {
		minimiseFile(t, d, job, res)
		res.WallS = time.Since(start).Seconds()
		return res
	}
	if job.Mode == "replay" {
		res.Replayed = replayFile(t, d, job, res)
		res.WallS = time.Since(start).Seconds()
		return res
	}

	sigs := map[string]map[uint64]struct{}{}
	reported := map[string]bool{}
	var hashes *os.File
	if job.HashesOut != "" {
		f, err := os.Create(job.HashesOut)
		if err != nil {
			res.HarnessErr = err.Error()
			return res
		}
		hashes = f
		defer f.Close()
	}
	var longest Plan
	for i := job.From; i < job.To; i++ {
		if job.MaxWallS > 0 && time.Since(start).Seconds() > job.MaxWallS {
			break
		}
		seed := RunSeed(job.BaseSeed, job.Scenario, i)
		if res.Runs == 0 {
			res.FirstSeed = seed
		}
		res.LastSeed = seed
		cfg := GenCfg{Focus: job.Focus, Tier: job.Tier, Index: i}
		plan := d.Gen(NewRand(seed), cfg)
		o := RunPlan(t, d, plan, seed, false)
		res.Runs++
		if hashes != nil {
			fmt.Fprintf(hashes, "%d %s\n", i, o.LogHash())
		}
		if o.HarnessErr != "" {
			res.HarnessErr = fmt.Sprintf("run %d seed %d: %s", i, seed, o.HarnessErr)
			saveReplay(job, d, plan, plan, seed, i, Violation{Prop: "HARNESS", Clause: "error", Detail: o.HarnessErr}, o, 0)
			break
		}
		if job.SelfTest > 0 && i%uint64(job.SelfTest) == 0 {
			plan2 := d.Gen(NewRand(seed), cfg)
			o2 := RunPlan(t, d, plan2, seed, false)
			res.SelfTests++
			if o2.LogHash() != o.LogHash() && (o.Aborted || o2.Aborted) {
				// one of the two executions was cut short by the REAL-TIME watchdog (a call starved
				// of CPU under load, or a genuine hang that the violation path reports): the event
				// logs differ for that reason alone, which says nothing about determinism
				res.Unreproduced = append(res.Unreproduced, fmt.Sprintf("self-test of run %d skipped: a wall-clock watchdog cut one execution short", i))
			} else if o2.LogHash() != o.LogHash() {
				res.HarnessErr = fmt.Sprintf("determinism self-test failed: run %d seed %d: %s vs %s", i, seed, o.LogHash(), o2.LogHash())
				break
			}
		}
		for k, v := range o.Evals {
			res.Evals[k] += v
		}
		for k, v := range o.Faults {
			res.Faults[k] += v
		}
		for k, v := range o.Probes {
			res.Probes[k] += v
		}
		for p, m := range o.Sigs {
			dst := sigs[p]
			if dst == nil {
				dst = map[uint64]struct{}{}
				sigs[p] = dst
			}
			for h := range m {
				dst[h] = struct{}{}
			}
		}
		res.SimSec += o.SimSec
		if len(res.Samples) < 2 {
			res.Samples = append(res.Samples, planSample(plan, seed, i))
		}
		if longest == nil || plan.Len() > longest.Len() {
			longest = plan
		}
		seen := map[string]bool{}
		for _, v := range o.Viol {
			k := v.Key()
			if seen[k] {
				continue
			}
			seen[k] = true
			res.ViolCount[k]++
			if !inList(job.Report, v.Prop) || reported[k] {
				continue
			}
			reported[k] = true
			if job.NoMin {
				path := saveReplay(job, d, plan, plan, seed, i, v, o, 0)
				res.Violations = append(res.Violations, ViolationReport{Violation: v, Replay: path, Steps: plan.Len(), Seed: seed, RunIndex: i})
				continue
			}
			min, cand := plan, 0
			if !job.NoMin && !o.Aborted {
				min, cand = Minimise(t, d, plan, seed, k, 2000, 60*time.Second)
			}
			om := RunPlan(t, d, min, seed, true)
			mv := hasKey(om, k)
			if mv == nil && d.Fresh {
				// a race report cannot repeat in this process; the fresh-process probe is the judge
				if keys, err := probeFresh(d, min, seed); err == nil && keys[k] {
					vv := v
					mv = &vv
				}
			}
			if mv == nil && (v.Clause == "memory" || v.Clause == "no-termination") {
				// real-time / sampled-memory violations must reproduce to count
				res.Unreproduced = append(res.Unreproduced, k+": "+v.Detail)
				continue
			}
			if mv == nil {
				// cannot happen: Minimise only accepts failing candidates
				res.HarnessErr = "minimised plan does not reproduce " + k
				min, om = plan, RunPlan(t, d, plan, seed, true)
				mv = hasKey(om, k)
				if mv == nil {
					mv = &v
				}
			}
			path := saveReplay(job, d, plan, min, seed, i, *mv, om, cand)
			res.Violations = append(res.Violations, ViolationReport{Violation: *mv, Replay: path, Steps: min.Len(), Seed: seed, RunIndex: i})
		}
		if o.Aborted {
			break // an abandoned goroutine may still be running: this worker stops here
		}
	}
	if longest != nil {
		s := planSample(longest, 0, 0)
		s["note"] = "longest plan of this worker"
		delete(s, "seed")
		delete(s, "run_index")
		res.Samples = append(res.Samples, s)
	}
	for p, m := range sigs {
		xs := make([]uint64, 0, len(m))
		for h := range m {
			xs = append(xs, h)
		}
		sort.Slice(xs, func(i, j int) bool { return xs[i] < xs[j] })
		res.Sigs[p] = xs
	}
	res.WallS = time.Since(start).Seconds()
	return res
}

func planSample(p Plan, seed, idx uint64) map[string]any {
	s := p.Summary()
	s["seed"] = seed
	s["run_index"] = idx
	return s
}

func saveReplay(job *Job, d *ScenarioDef, orig, min Plan, seed, idx uint64, v Violation, o *Outcome, cand int) string {
	pj, _ := json.Marshal(min)
	rf := ReplayFile{
		Scenario: d.Name, Property: v.Prop, Clause: v.Clause, Known: v.Known,
		BaseSeed: job.BaseSeed, RunIndex: idx, Seed: seed, LogHash: o.LogHash(),
		Violation: v, OriginalSteps: orig.Len(), MinimisedSteps: min.Len(), Candidates: cand,
		Plan: pj, Log: o.Log(),
	}
	b, _ := json.MarshalIndent(rf, "", " ")
	name := fmt.Sprintf("%s-%s-%s-%d-%d.json", v.Prop, d.Name, sanitize(v.Clause), job.BaseSeed, idx)
	path := job.ReplayDir + "/" + name
	os.MkdirAll(job.ReplayDir, 0o755)
	if err := os.WriteFile(path, b, 0o644); err != nil {
		return ""
	}
	return path
}

func sanitize(s string) string {
	return strings.Map(func(r rune) rune {
		if (r >= 'a' && r <= 'z') || (r >= 'A' && r <= 'Z') || (r >= '0' && r <= '9') || r == '-' || r == '_' {
			return r
		}
		return '_'
	}, s)
}

// minimiseFile shrinks the plan of an (unminimised) replay file; used for
// scenarios whose candidates need fresh processes, once per violation class.
func minimiseFile(t *testing.T, d *ScenarioDef, job *Job, res *Result) {
	b, err := os.ReadFile(job.Replay)
	if err != nil {
		res.HarnessErr = err.Error()
		return
	}
	var rf ReplayFile
	if err := json.Unmarshal(b, &rf); err != nil {
		res.HarnessErr = err.Error()
		return
	}
	plan, err := d.Decode(rf.Plan)
	if err != nil {
		res.HarnessErr = err.Error()
		return
	}
	key := rf.Violation.Key()
	min, cand := Minimise(t, d, plan, rf.Seed, key, 600, 120*time.Second)
	om := RunPlan(t, d, min, rf.Seed, true)
	v := rf.Violation
	if mv := hasKey(om, key); mv != nil {
		v = *mv
	} else if keys, err := probeFresh(d, min, rf.Seed); err != nil || !keys[key] {
		// keep the original
		min, cand = plan, 0
	}
	job.BaseSeed = rf.BaseSeed
	path := saveReplay(job, d, plan, min, rf.Seed, rf.RunIndex, v, om, cand)
	res.Violations = append(res.Violations, ViolationReport{Violation: v, Replay: path, Steps: min.Len(), Seed: rf.Seed, RunIndex: rf.RunIndex})
}

func replayFile(t *testing.T, d *ScenarioDef, job *Job, res *Result) *ReplayResult {
	b, err := os.ReadFile(job.Replay)
	if err != nil {
		res.HarnessErr = err.Error()
		return nil
	}
	var rf ReplayFile
	if err := json.Unmarshal(b, &rf); err != nil {
		res.HarnessErr = err.Error()
		return nil
	}
	plan, err := d.Decode(rf.Plan)
	if err != nil {
		res.HarnessErr = "decode plan: " + err.Error()
		return nil
	}
	o := RunPlan(t, d, plan, rf.Seed, true)
	res.Runs = 1
	if o.HarnessErr != "" {
		res.HarnessErr = o.HarnessErr
	}
	rr := &ReplayResult{LogHash: o.LogHash(), SameHash: o.LogHash() == rf.LogHash}
	want := rf.Property + "/" + rf.Clause + "/"
	for _, v := range o.Viol {
		// the known-findings file may have changed since the replay was
		// written, so compare on property and clause only
		if strings.HasPrefix(v.Key(), want) {
			rr.Reproduced = true
			rr.Key = v.Key()
			rr.Detail = v.Detail
			res.Violations = append(res.Violations, ViolationReport{Violation: v, Replay: job.Replay, Steps: plan.Len(), Seed: rf.Seed, RunIndex: rf.RunIndex})
			break
		}
	}
	return rr
}
