package sim

import (
	"encoding/json"
	"os"
	"strings"
	"testing"
)

// TestWorker is the entry point of a simulator worker process. The driver
// (cmd/dsim) passes a job file through DSIM_JOB.
func TestWorker(t *testing.T) {
	path := os.Getenv("DSIM_JOB")
	if path == "" {
		t.Skip("no DSIM_JOB")
	}
	b, err := os.ReadFile(path)
	if err != nil {
		t.Fatal(err)
	}
	var job Job
	if err := json.Unmarshal(b, &job); err != nil {
		t.Fatal(err)
	}
	InitKeyPool(t, os.Getenv("DSIM_NO_RSA") == "")
	for _, f := range strings.Fields(os.Getenv("GORACE")) {
		if strings.HasPrefix(f, "log_path=") {
			raceLogPath = strings.TrimPrefix(f, "log_path=")
		}
	}
	res := RunJob(t, &job)
	out, _ := json.Marshal(res)
	if err := os.WriteFile(job.Out, out, 0o644); err != nil {
		t.Fatal(err)
	}
}
