package sim

import (
	"fmt"
	"testing"
	"testing/cryptotest"

	"github.com/ipfs/go-cid"
	"github.com/ucan-wg/go-ucan/token"
)

// Standalone token specifications for the stream / container / wire / secret
// scenarios (no chain needed there).

type TokSpec struct {
	Kind string   `json:"kind"` // dlg | inv
	Dlg  *DlgSpec `json:"dlg,omitempty"`
	Inv  *InvSpec `json:"inv,omitempty"`
}

func (t TokSpec) label() string {
	if t.Kind == "dlg" {
		return t.Dlg.Label
	}
	return t.Inv.Label
}

func (t TokSpec) iss() int {
	if t.Kind == "dlg" {
		return t.Dlg.Iss
	}
	return t.Inv.Iss
}

// genTokSpec draws a token with PRNG-chosen optional fields. rich adds nested
// argument / metadata values.
func genTokSpec(r *Rand, nCast int, label string, rich bool) TokSpec {
	a := genArgs(r)
	if rich && r.Chance(0.5) {
		a = append(a, KV{"deep", vMap(KV{"l", vList(vInt(1), vStr("x"), vList(vBool(true), vStr("")))}, KV{"b", vBytes(r.Bytes(r.Range(0, 9)))})})
	}
	if rich && r.Chance(0.3) {
		a = append(a, KV{"uni", vStr(Pick(r, []string{"héllo", "日本語", "a\u0000b", "😀", ""}))})
	}
	if r.Chance(0.5) {
		d := &DlgSpec{Label: label, Iss: r.Intn(nCast), Aud: r.Intn(nCast), Sub: r.Intn(nCast), Cmd: "/"}
		for i := r.Intn(3); i > 0; i-- {
			d.Cmd = extendCmd(r, d.Cmd)
		}
		switch r.Intn(4) {
		case 0:
			d.Sub = -1
		case 1:
			d.Sub = d.Iss
			d.UseRoot = r.Chance(0.5)
		}
		if rich && r.Chance(0.05) {
			// a command put together from segments (command.New does not validate) that no parser
			// accepts: a constructor takes it or refuses it, and what it takes reads back
			d.Cmd = cmdBytes(Pick(r, []string{"/Crud/read", "/crud\xfe", "/a/B/c", "/store/\u0414"}))
		}
		d.Pol = genPolicy(r, a, r.Range(0, 3))
		if r.Chance(0.5) {
			d.Exp = ptr(int64(r.Range(10, 1<<30)))
		}
		if r.Chance(0.3) {
			d.Nbf = ptr(int64(r.Range(10, 1<<20)))
		}
		if r.Chance(0.1) {
			// far bounds: beyond 2262 (where UnixNano wraps), year 9999
			d.Exp, d.Relative = ptr(Pick(r, []int64{9467020800, 10413792000, 253402300799})-simEpochUnix), false
			if r.Chance(0.5) {
				d.Nbf = ptr(Pick(r, []int64{9467020700, 10413791000}) - simEpochUnix)
			}
		}
		if r.Chance(0.15) {
			d.SubMilli = int64(r.Range(1, 999))
		}
		d.Relative = r.Chance(0.5)
		if r.Chance(0.06) {
			// both bounds inside one wall-clock second: a window that is real as constructed and
			// collapses to a single instant on the wire
			sec := int64(r.Range(10, 1<<20))
			d.Nbf, d.Exp = &sec, ptr(sec)
			d.NbfMilli, d.SubMilli = int64(r.Range(1, 400)), int64(r.Range(500, 999))
		}
		d.NonceLen = []int{0, 0, 12, 16, 32}[r.Intn(5)]
		d.Meta = genMeta(r)
		return TokSpec{Kind: "dlg", Dlg: d}
	}
	v := &InvSpec{Label: label, Iss: r.Intn(nCast), Sub: r.Intn(nCast), Aud: -1, Cmd: "/", Args: a}
	for i := r.Intn(3); i > 0; i-- {
		v.Cmd = extendCmd(r, v.Cmd)
	}
	if rich && r.Chance(0.05) {
		v.Cmd = cmdBytes(Pick(r, []string{"/Crud/read", "/crud\xfe", "/a/B/c", "/store/\u0414"}))
	}
	if r.Chance(0.3) {
		v.Aud = r.Intn(nCast)
	}
	for i := r.Intn(4); i > 0; i-- {
		v.Prf = append(v.Prf, fmt.Sprintf("p%d", r.Intn(100)))
	}
	if r.Chance(0.4) {
		v.Exp = ptr(int64(r.Range(10, 1<<30)))
	}
	v.Relative = r.Chance(0.5)
	v.Iat = []string{"", "none", "past", "future", "zero", "epoch", "neg", "y9999", "y2300"}[r.Intn(9)]
	v.NonceLen = []int{0, 0, 12, 16, 32, -1}[r.Intn(6)]
	v.ArgsVia = Pick(r, []string{"", "", "args", "builder", "include", "split", "overlap"})
	v.Meta = genMeta(r)
	v.Cause = r.Chance(0.2)
	return TokSpec{Kind: "inv", Inv: v}
}

// uniformDlgSpec gives delegations whose sealed form has the same length for
// every label (Ed25519 principals only): used where the order in which a
// container writer emits its entries must not influence byte counts.
func uniformDlgSpec(i int) TokSpec {
	return TokSpec{Kind: "dlg", Dlg: &DlgSpec{Label: fmt.Sprintf("u%02d", i%100), Iss: i % 8, Aud: (i + 1) % 8, Sub: i % 8, Cmd: "/a/b", NonceLen: 12}}
}

// buildTok constructs the real token for a spec (missing proof labels become
// CIDs nobody stored).
func buildTok(c cast, s TokSpec) (token.Token, error) {
	if s.Kind == "dlg" {
		t, err := buildDelegation(c, *s.Dlg)
		if err != nil {
			return nil, err
		}
		return t, nil
	}
	prf := make([]cid.Cid, len(s.Inv.Prf))
	for i, l := range s.Inv.Prf {
		prf[i] = missingCID(l)
	}
	t, err := buildInvocation(c, *s.Inv, prf)
	if err != nil {
		return nil, err
	}
	return t, nil
}

// reseed resets the deterministic randomness stream, so that two sealing calls
// of the same token produce the same signature bytes even for randomised
// signature schemes.
func reseed(t *testing.T, seed uint64, salt string) {
	cryptotest.SetGlobalRandom(t, seed^fnv64(salt))
}
