package sim

import (
	"crypto/ecdsa"
	"crypto/elliptic"
	"crypto/x509"
	"errors"
	"fmt"
	"math"
	"math/big"
	"runtime/metrics"
	"time"

	"github.com/libp2p/go-libp2p/core/crypto"
)

// Harness-side envelope tools: take a sealed token apart, rewrite it at node
// level, and (for byzantine signers) sign whatever payload with a real key.

const (
	tagDlg = "ucan/dlg@1.0.0-rc.1"
	tagInv = "ucan/inv@1.0.0-rc.1"
)

type envelope struct {
	root    *CB // array [sig, sigPayload]
	sig     *CB
	sp      *CB // map {h, tag: payload}
	tag     string
	payload *CB
}

func openEnvelope(b []byte) (*envelope, error) {
	root, err := cbDecodeAll(b)
	if err != nil {
		return nil, err
	}
	if root.Major != 4 || len(root.Kids) != 2 || root.Kids[0].Major != 2 || root.Kids[1].Major != 5 {
		return nil, errors.New("not an envelope")
	}
	e := &envelope{root: root, sig: root.Kids[0], sp: root.Kids[1]}
	for i := 0; i+1 < len(e.sp.Kids); i += 2 {
		k := string(e.sp.Kids[i].Data)
		if len(k) > 5 && k[:5] == "ucan/" {
			e.tag = k
			e.payload = e.sp.Kids[i+1]
		}
	}
	if e.payload == nil || e.payload.Major != 5 {
		return nil, errors.New("no payload")
	}
	return e, nil
}

// resign signs the canonical encoding of the (possibly rewritten) SigPayload
// with a real key: the signature is valid, only the content is hostile.
func (e *envelope) resign(priv crypto.PrivKey) error {
	sig, err := priv.Sign(e.sp.Encode())
	if err != nil {
		return err
	}
	e.sig.Data = sig
	return nil
}

func (e *envelope) bytes() []byte { return e.root.Encode() }

// canonicalise clears every non-canonical encoding choice in a tree.
func canonicalise(c *CB) {
	c.Walk(func(x *CB) {
		x.Width, x.Indef = 0, false
		if x.Major == 5 {
			x.sortCanonical()
		}
	})
}

// semanticCanon rewrites a tree to the canonical DAG-CBOR form of the data a
// lenient decoder reads from it: unknown tags dropped (42 = link is kept),
// undefined read as null, float16/32 widened, definite lengths, minimal heads,
// sorted maps. Two byte strings with the same semanticCanon carry the same data.
func semanticCanon(c *CB) *CB {
	for c.Major == 6 && c.Arg != 42 && len(c.Kids) == 1 {
		c = c.Kids[0]
	}
	d := *c
	d.Width, d.Indef = 0, false
	if d.Major == 7 {
		switch d.Float {
		case 32:
			d.Float, d.Arg = 64, math.Float64bits(float64(math.Float32frombits(uint32(c.Arg))))
		case 16:
			d.Float, d.Arg = 64, math.Float64bits(halfToFloat(uint16(c.Arg)))
		case 0:
			if d.Arg == 23 {
				d.Arg = 22
			}
		}
	}
	if c.Kids != nil {
		d.Kids = make([]*CB, len(c.Kids))
		for i, k := range c.Kids {
			d.Kids[i] = semanticCanon(k)
		}
	}
	if d.Major == 5 {
		d.sortCanonical()
	}
	return &d
}

func halfToFloat(h uint16) float64 {
	sign := 1.0
	if h&0x8000 != 0 {
		sign = -1
	}
	exp := int(h>>10) & 0x1f
	frac := float64(h & 0x3ff)
	switch exp {
	case 0:
		return sign * frac * math.Pow(2, -24)
	case 31:
		if frac == 0 {
			return sign * math.Inf(1)
		}
		return math.NaN()
	}
	return sign * (1 + frac/1024) * math.Pow(2, float64(exp-15))
}

// ------------------------------------------------------------------ guards with a real-time watchdog and an allocation meter

type callStat struct {
	panicked bool
	hung     bool
	peak     uint64
}

var heapSample = []metrics.Sample{{Name: "/memory/classes/heap/objects:bytes"}}

func heapNow() uint64 {
	metrics.Read(heapSample)
	return heapSample[0].Value.Uint64()
}

// guardT runs a library call on untrusted data outside any synctest bubble:
// panics are caught; a call that does not return within the limit is abandoned
// and reported (the run is then aborted: the abandoned goroutine would disturb
// everything after it); and, if meter is set, the growth of the live heap
// during the call is sampled (a lower bound of the true peak, so it can miss a
// spike but never invent one). Measured numbers never enter the event log.
func guardT(o *Outcome, entry string, inputLen int, meter bool, f func()) callStat {
	var st callStat
	if o.Aborted {
		st.hung = true
		return st
	}
	var base uint64
	stop := make(chan struct{})
	peakCh := make(chan uint64, 1)
	if meter {
		base = heapNow()
		go func() {
			var peak uint64
			tk := time.NewTicker(200 * time.Microsecond)
			defer tk.Stop()
			for {
				select {
				case <-stop:
					if h := heapNow(); h > peak {
						peak = h
					}
					peakCh <- peak
					return
				case <-tk.C:
					if h := heapNow(); h > peak {
						peak = h
					}
				}
			}
		}()
	}
	done := make(chan any, 1)
	go func() {
		defer func() { done <- recover() }()
		f()
	}()
	select {
	case r := <-done:
		if r != nil {
			st.panicked = true
			o.Violate("C09", "panic", fmt.Sprintf("%s panicked: %v", entry, r), map[string]string{"entry": entry})
		}
	case <-time.After(watchdogLimit):
		st.hung = true
		o.Aborted = true
		o.ViolateQuiet("C09", "no-termination", fmt.Sprintf("%s did not return within %v on %d bytes of input", entry, watchdogLimit, inputLen), map[string]string{"entry": entry})
	}
	if meter {
		close(stop)
		peak := <-peakCh
		if peak > base {
			st.peak = peak - base
		}
		limit := uint64(64<<20) + 4096*uint64(inputLen)
		o.Eval("C09")
		if st.peak > limit && !st.hung {
			o.ViolateQuiet("C09", "memory", fmt.Sprintf("%s: live heap grew by at least %d MiB on %d bytes of input (bound %d MiB)", entry, st.peak>>20, inputLen, limit>>20), map[string]string{"entry": entry})
		}
	}
	return st
}

var watchdogLimit = 10 * time.Second

// ------------------------------------------------------------------ ECDSA signature re-encodings (need no key)

func curveOrder(alg string) *big.Int {
	switch alg {
	case "p256":
		return elliptic.P256().Params().N
	case "p384":
		return elliptic.P384().Params().N
	case "p521":
		return elliptic.P521().Params().N
	case "secp256k1":
		n, _ := new(big.Int).SetString("FFFFFFFFFFFFFFFFFFFFFFFFFFFFFFFEBAAEDCE6AF48A03BBFD25E8CD0364141", 16)
		return n
	}
	return nil
}

// derInts parses SEQUENCE { INTEGER r, INTEGER s } (short or long form lengths).
func derInts(sig []byte) (r, s []byte, ok bool) {
	p := 0
	rdLen := func() (int, bool) {
		if p >= len(sig) {
			return 0, false
		}
		b := sig[p]
		p++
		if b < 0x80 {
			return int(b), true
		}
		n := int(b & 0x7f)
		if n == 0 || n > 2 || p+n > len(sig) {
			return 0, false
		}
		v := 0
		for i := 0; i < n; i++ {
			v = v<<8 | int(sig[p])
			p++
		}
		return v, true
	}
	if len(sig) < 8 || sig[0] != 0x30 {
		return nil, nil, false
	}
	p = 1
	if _, ok := rdLen(); !ok {
		return nil, nil, false
	}
	rdInt := func() ([]byte, bool) {
		if p >= len(sig) || sig[p] != 0x02 {
			return nil, false
		}
		p++
		l, ok := rdLen()
		if !ok || p+l > len(sig) {
			return nil, false
		}
		v := sig[p : p+l]
		p += l
		return v, true
	}
	r, ok = rdInt()
	if !ok {
		return nil, nil, false
	}
	s, ok = rdInt()
	return r, s, ok
}

func derLen(n int) []byte {
	switch {
	case n < 0x80:
		return []byte{byte(n)}
	case n < 0x100:
		return []byte{0x81, byte(n)}
	}
	return []byte{0x82, byte(n >> 8), byte(n)}
}

func derInt(v []byte, pad bool) []byte {
	// minimal two's complement positive integer
	for len(v) > 1 && v[0] == 0 && v[1] < 0x80 {
		v = v[1:]
	}
	if len(v) == 0 || v[0] >= 0x80 {
		v = append([]byte{0}, v...)
	}
	if pad {
		v = append([]byte{0}, v...)
	}
	return append(append([]byte{0x02}, derLen(len(v))...), v...)
}

func derSeq(r, s []byte, longForm bool) []byte {
	body := append(append([]byte{}, r...), s...)
	l := derLen(len(body))
	if longForm && len(body) < 0x80 {
		l = []byte{0x81, byte(len(body))}
	}
	return append(append([]byte{0x30}, l...), body...)
}

// sigVariants returns key-less re-encodings of an ECDSA/secp256k1 DER signature.
func sigVariants(alg string, sig []byte) map[string][]byte {
	out := map[string][]byte{}
	// whatever the algorithm: the same signature value with zero octets in front (a big-integer
	// reading would not notice)
	out["zero_octets_in_front"] = append([]byte{0x00}, sig...)
	out["two_zero_octets_in_front"] = append([]byte{0x00, 0x00}, sig...)
	if len(sig) > 1 && sig[0] == 0 {
		out["leading_zero_octet_stripped"] = append([]byte{}, sig[1:]...)
	}
	n := curveOrder(alg)
	if n == nil {
		return out
	}
	r, s, ok := derInts(sig)
	if !ok {
		return out
	}
	sv := new(big.Int).SetBytes(s)
	ns := new(big.Int).Sub(n, sv)
	out["ecdsa_n_minus_s"] = derSeq(derInt(r, false), derInt(ns.Bytes(), false), false)
	out["der_trailing_bytes"] = append(append([]byte{}, sig...), 0x00, 0x00)
	out["der_long_form_length"] = derSeq(derInt(r, false), derInt(s, false), true)
	out["der_padded_integer"] = derSeq(derInt(r, true), derInt(s, false), false)
	return out
}

// zeroHashForgery: an ECDSA signature (r, s) that verifies under the given public key against an
// ALL-ZERO digest: r = x(t*Q) mod n, s = r / t mod n (then u1 = 0, u2 = t). It is computable from
// the public key alone and is what a verifier accepts that hashes nothing, the wrong thing, or
// picks no digest for a curve. Returned in ASN.1 DER and in fixed-size r||s form.
func zeroHashForgery(pub crypto.PubKey, t int64) (der, raw []byte, ok bool) {
	rawKey, err := pub.Raw()
	if err != nil {
		return nil, nil, false
	}
	k, err := x509.ParsePKIXPublicKey(rawKey)
	if err != nil {
		return nil, nil, false
	}
	ek, isEC := k.(*ecdsa.PublicKey)
	if !isEC {
		return nil, nil, false
	}
	n := ek.Curve.Params().N
	tt := big.NewInt(t)
	x, _ := ek.Curve.ScalarMult(ek.X, ek.Y, tt.Bytes())
	r := new(big.Int).Mod(x, n)
	tinv := new(big.Int).ModInverse(tt, n)
	if r.Sign() == 0 || tinv == nil {
		return nil, nil, false
	}
	sv := new(big.Int).Mod(new(big.Int).Mul(r, tinv), n)
	size := (ek.Curve.Params().BitSize + 7) / 8
	raw = make([]byte, 2*size)
	r.FillBytes(raw[:size])
	sv.FillBytes(raw[size:])
	der = derSeq(derInt(r.Bytes(), false), derInt(sv.Bytes(), false), false)
	return der, raw, true
}
