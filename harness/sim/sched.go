package sim

import (
	"bytes"
	"encoding/json"
	"errors"
	"fmt"
	"io"
	"os"
	"runtime"
	"sort"
	"strings"
	"sync"
	"testing"
	"time"

	"github.com/ipfs/go-cid"
	"github.com/ipld/go-ipld-prime/codec/dagcbor"
	"github.com/ipld/go-ipld-prime/datamodel"
	"github.com/libp2p/go-libp2p/core/crypto"

	"github.com/ucan-wg/go-ucan/did"
	"github.com/ucan-wg/go-ucan/pkg/args"
	"github.com/ucan-wg/go-ucan/pkg/command"
	"github.com/ucan-wg/go-ucan/pkg/container"
	"github.com/ucan-wg/go-ucan/pkg/meta"
	"github.com/ucan-wg/go-ucan/token"
	"github.com/ucan-wg/go-ucan/token/delegation"
	"github.com/ucan-wg/go-ucan/token/invocation"
)

// The `sched` scenario (built with -race): K goroutines perform read-only
// operations on shared tokens. A baton that the race detector cannot see
// decides which goroutine runs next, so execution is deterministic while the
// operations of different goroutines stay concurrent in the detector's vector
// clocks: it reports every pair of conflicting unsynchronised accesses between
// them, i.e. it decides data-race freedom for all finer interleavings of the
// chosen operations. Decides C20.

type SchedPlan struct {
	Cast     []Principal `json:"cast"`
	Dlgs     []DlgSpec   `json:"dlgs"` // root -> leaf
	Inv      InvSpec     `json:"inv"`
	Decoded  bool        `json:"decoded"`              // shared tokens come out of the decoders instead of the constructors
	AudIsSub bool        `json:"aud_is_sub,omitempty"` // (with Decoded) the invocation's bytes spell out an audience equal to the subject
	Ops      [][]string  `json:"ops"`                  // per goroutine
	Inter    []int       `json:"interleave"`
	DupPrf   int         `json:"dup_proof,omitempty"` // >0: proof number DupPrf-1 is listed twice in a row (an invalid but well-formed invocation)
	EncKey   []byte      `json:"enc_key,omitempty"`
}

func (p *SchedPlan) Len() int { return len(p.Inter) }

// Keep drops interleaving slots; the operation consumed by a dropped slot is
// dropped with it.
func (p *SchedPlan) Keep(keep []bool) Plan {
	q := p.clone()
	next := make([]int, len(p.Ops))
	newOps := make([][]string, len(p.Ops))
	q.Inter = nil
	for i, g := range p.Inter {
		if g < 0 || g >= len(p.Ops) || next[g] >= len(p.Ops[g]) {
			continue
		}
		op := p.Ops[g][next[g]]
		next[g]++
		if keep[i] {
			q.Inter = append(q.Inter, g)
			newOps[g] = append(newOps[g], op)
		}
	}
	q.Ops = newOps
	return q
}

func (p *SchedPlan) clone() *SchedPlan {
	b, _ := json.Marshal(p)
	var q SchedPlan
	json.Unmarshal(b, &q)
	return &q
}

func (p *SchedPlan) Summary() map[string]any {
	s := ""
	for _, g := range p.Inter {
		s += fmt.Sprint(g)
	}
	return map[string]any{"scenario": "sched", "goroutines": len(p.Ops), "ops": p.Ops, "interleaving": s, "decoded": p.Decoded, "arg_keys": len(p.Inv.Args), "meta_keys": len(p.Inv.Meta), "chain": len(p.Dlgs)}
}

func (p *SchedPlan) Simpler() []Plan {
	var out []Plan
	mut := func(f func(q *SchedPlan) bool) {
		q := p.clone()
		if f(q) {
			out = append(out, q)
		}
	}
	for j := range p.Inv.Args {
		j := j
		mut(func(q *SchedPlan) bool { q.Inv.Args = append(q.Inv.Args[:j:j], q.Inv.Args[j+1:]...); return true })
	}
	for j := range p.Inv.Meta {
		j := j
		mut(func(q *SchedPlan) bool { q.Inv.Meta = append(q.Inv.Meta[:j:j], q.Inv.Meta[j+1:]...); return true })
	}
	for i := range p.Dlgs {
		i := i
		if len(p.Dlgs[i].Pol) > 0 || len(p.Dlgs[i].Meta) > 0 {
			mut(func(q *SchedPlan) bool { q.Dlgs[i].Pol, q.Dlgs[i].Meta = nil, nil; return true })
		}
	}
	if p.Decoded {
		mut(func(q *SchedPlan) bool { q.Decoded = false; return true })
	}
	return out
}

// ------------------------------------------------------------------ baton

var batonTurn int32

//go:norace
func batonWait(id int32) {
	for batonTurn != id {
		runtime.Gosched()
	}
}

//go:norace
func batonSet(id int32) { batonTurn = id }

// ------------------------------------------------------------------ shared world

type schedWorld struct {
	cast   cast
	dlgs   []*delegation.Token
	inv    *invocation.Token
	sealed [][]byte // dlgs..., inv
	cids   []cid.Cid
	store  container.Reader
	encKey []byte

	dlgPriv []crypto.PrivKey
	invPriv crypto.PrivKey

	firstSeal string // set if the first sealing of a freshly constructed token changed it

	forged [][]byte // per sealed token: same signature, one payload byte changed (same length)
	carAll []byte   // all sealed tokens in one CAR

	encMu     sync.Mutex
	encStored [][]byte // stored ciphertexts of every EncryptOwn operation (nonce-freshness oracle)
}

// forgeSameLength rewrites one byte inside the nonce of a sealed token: canonical DAG-CBOR of
// the same length, same issuer, same signature, other content (never signed).
func forgeSameLength(sealed []byte) []byte {
	env, err := openEnvelope(sealed)
	if err != nil {
		return nil
	}
	for i := 0; i+1 < len(env.payload.Kids); i += 2 {
		k, v := env.payload.Kids[i], env.payload.Kids[i+1]
		if string(k.Data) == "nonce" && v.Major == 2 && len(v.Data) > 0 {
			out := append([]byte{}, sealed...)
			out[v.End-1] ^= 0x01
			return out
		}
	}
	return nil
}

var schedFixedTime = time.Date(2020, 1, 2, 3, 4, 5, 0, time.UTC)

func buildSchedWorld(p *SchedPlan) (*schedWorld, error) {
	// identical randomness for every build: private copies must equal the shared tokens
	reseed(schedT, schedSeed, "sched-world")
	w := &schedWorld{encKey: p.EncKey}
	for _, c := range p.Cast {
		w.cast = append(w.cast, normPrincipal(c))
	}
	if len(w.cast) == 0 {
		w.cast = cast{{"ed25519", 0}}
	}
	wr := container.NewWriter()
	var prf []cid.Cid
	for i := range p.Dlgs {
		d := p.Dlgs[i]
		if d.NonceLen < 12 {
			d.NonceLen = 12
		}
		d.Relative, d.Nbf = false, nil
		tk, err := buildDelegation(w.cast, d)
		if err != nil {
			return nil, err
		}
		before := recOf(tk).Ordered()
		b, c, err := tk.ToSealed(w.cast.ent(d.Iss).priv)
		if err != nil {
			return nil, err
		}
		if after := recOf(tk).Ordered(); after != before && w.firstSeal == "" {
			w.firstSeal = "delegation " + d.Label + ": " + firstDiff(before, after)
		}
		if p.Decoded {
			tk, _, err = delegation.FromSealed(b)
			if err != nil {
				return nil, err
			}
		}
		w.dlgs = append(w.dlgs, tk)
		w.dlgPriv = append(w.dlgPriv, w.cast.ent(d.Iss).priv)
		w.sealed = append(w.sealed, b)
		w.cids = append(w.cids, c)
		wr.AddSealed(c, b)
		prf = append([]cid.Cid{c}, prf...)
	}
	if p.DupPrf > 0 && len(prf) > 0 {
		i := (p.DupPrf - 1) % len(prf)
		prf = append(prf[:i+1:i+1], prf[i:]...)
	}
	v := p.Inv
	if v.NonceLen < 12 {
		v.NonceLen = 12
	}
	v.Iat, v.Relative = "fixed", false
	inv, err := buildInvocationFixed(w.cast, v, prf)
	if err != nil {
		return nil, err
	}
	before := recOf(inv).Ordered()
	b, c, err := inv.ToSealed(w.cast.ent(v.Iss).priv)
	if err != nil {
		return nil, err
	}
	if after := recOf(inv).Ordered(); after != before && w.firstSeal == "" {
		w.firstSeal = "invocation: " + firstDiff(before, after)
	}
	if p.Decoded && p.AudIsSub {
		// an invocation as another implementation may issue it: the audience spelled out although
		// it is the subject (no constructor of this library produces that; legal on the wire and
		// correctly signed)
		if env, oerr := openEnvelope(b); oerr == nil {
			if subText := env.payload.MapGet("sub"); subText != nil {
				env.payload.MapSet("aud", subText.Clone())
				if env.resign(w.cast.ent(v.Iss).priv) == nil {
					if _, c2, derr := invocation.FromSealed(env.bytes()); derr == nil {
						b, c = env.bytes(), c2
					}
				}
			}
		}
	}
	if p.Decoded {
		inv, _, err = invocation.FromSealed(b)
		if err != nil {
			return nil, err
		}
	}
	w.inv = inv
	w.invPriv = w.cast.ent(v.Iss).priv
	w.sealed = append(w.sealed, b)
	w.cids = append(w.cids, c)
	for _, b := range w.sealed {
		w.forged = append(w.forged, forgeSameLength(b))
	}
	wrAll := container.NewWriter()
	for i, b := range w.sealed {
		wrAll.AddSealed(w.cids[i], b)
	}
	if w.carAll, err = wrAll.ToCar(); err != nil {
		return nil, err
	}
	raw, err := wr.ToCbor()
	if err != nil {
		return nil, err
	}
	w.store, err = container.FromCbor(raw)
	if err != nil {
		return nil, err
	}
	if !p.Decoded {
		// the shared loader hands out the very tokens the goroutines also use directly
		for i, c := range w.cids[:len(w.dlgs)] {
			w.store[c] = w.dlgs[i]
		}
	}
	return w, nil
}

func buildInvocationFixed(c cast, s InvSpec, prf []cid.Cid) (*invocation.Token, error) {
	s.Iat = "none"
	tk, err := buildInvocation(c, s, prf)
	return tk, err
}

// warm runs every lazy initialiser (schema loads, bindnode caches) on the
// calling goroutine, on private tokens, before any worker starts: a sync.Once
// taken inside an operation would create a happens-before edge and could hide
// a conflict.
func (w *schedWorld) warm(p *SchedPlan) {
	x, err := buildSchedWorld(p)
	if err != nil {
		return
	}
	for _, name := range allSchedOps(p) {
		func() {
			defer func() { recover() }()
			schedOp(x, name)()
		}()
	}
}

func sortedLines(s string) string {
	l := strings.Split(s, "\n")
	sort.Strings(l)
	return strings.Join(l, "\n")
}

func errStr(err error) string {
	if err == nil {
		return "ok"
	}
	return "error"
}

func tokOf(w *schedWorld, target string) (token.Token, crypto.PrivKey) {
	if target == "inv" || len(w.dlgs) == 0 {
		return w.inv, w.invPriv
	}
	var i int
	fmt.Sscanf(target, "dlg%d", &i)
	return w.dlgs[i%len(w.dlgs)], w.dlgPriv[i%len(w.dlgs)]
}

// failingSink accepts failAt writes and fails from then on.
type failingSink struct{ failAt, calls int }

func (f *failingSink) Write(p []byte) (int, error) {
	f.calls++
	if f.calls > f.failAt {
		return 0, errors.New("dsim: sink failed")
	}
	return len(p), nil
}

type discard struct{ n int }

func (d *discard) Write(p []byte) (int, error) { d.n += len(p); return len(p), nil }

// schedOp executes one read-only operation (library calls only) and returns a
// closure that renders its result in a canonical, comparable form. Rendering
// is deferred so that no harness formatting runs between the library calls of
// different goroutines.
func schedOp(w *schedWorld, name string) func() string {
	parts := strings.SplitN(name, ":", 3)
	target, op := parts[0], parts[1]
	arg := ""
	if len(parts) > 2 {
		arg = parts[2]
	}
	tk, pk := tokOf(w, target)
	inv, isInv := tk.(*invocation.Token)
	dlg, _ := tk.(*delegation.Token)
	dash := func() string { return "-" }
	pairs := func(ks []string, vs []datamodel.Node) func() string {
		return func() string {
			var out []string
			for i, k := range ks {
				out = append(out, k+"="+nodeHex(vs[i]))
			}
			sort.Strings(out) // the order of iteration is checked by the snapshots, not here
			return strings.Join(out, ",")
		}
	}
	switch op {
	case "ExecutionAllowed":
		err := w.inv.ExecutionAllowed(w.store)
		return func() string { return errStr(err) }
	case "ExecutionAllowedEmptyStore", "ExecutionAllowedPartialStore":
		// the same check against another store: nothing an earlier check learnt may answer for it
		other := container.Reader{}
		if op == "ExecutionAllowedPartialStore" {
			for i, c := range w.cids[:len(w.dlgs)] {
				if i != len(w.dlgs)-1 {
					if d, err := w.store.GetDelegation(c); err == nil {
						other[c] = d
					}
				}
			}
		}
		err := w.inv.ExecutionAllowed(other)
		return func() string { return errStr(err) }
	case "ExecutionAllowedHook":
		err := w.inv.ExecutionAllowedWithArgsHook(w.store, func(ro args.ReadOnly) (*args.Args, error) { return ro.WriteableClone(), nil })
		return func() string { return errStr(err) }
	case "ToSealed":
		b, c, err := tk.ToSealed(pk)
		return func() string { return fmt.Sprintf("%s %x %s", errStr(err), harnessCID(b), c) }
	case "ToSealedWriter":
		d := &discard{}
		c, err := tk.ToSealedWriter(d, pk)
		return func() string { return fmt.Sprintf("%s %d %s", errStr(err), d.n, c) }
	case "SealScribbleSeal":
		// what an encoder returns belongs to the caller: it is overwritten here (a caller that
		// frames or wipes its buffer in place), and the token is encoded again
		b1, _, _ := tk.ToSealed(pk)
		for i := range b1 {
			b1[i] = 0xff
		}
		j1, _ := tk.ToDagJson(pk)
		for i := range j1 {
			j1[i] = 0xff
		}
		b, c, err := tk.ToSealed(pk)
		j, jerr := tk.ToDagJson(pk)
		return func() string {
			return fmt.Sprintf("%s %x %s %s %x", errStr(err), harnessCID(b), c, errStr(jerr), harnessCID(j))
		}
	case "ToSealedWriterAfterFailure":
		// a sealing whose sink fails part-way (an ordinary event for a network writer), then the
		// same sealing into a good sink: the second is what it always is
		for _, failAt := range []int{0, 1, 3} {
			f := &failingSink{failAt: failAt}
			_, _ = tk.ToSealedWriter(f, pk)
		}
		d := &discard{}
		c, err := tk.ToSealedWriter(d, pk)
		return func() string { return fmt.Sprintf("%s %d %s", errStr(err), d.n, c) }
	case "ToDagCbor":
		b, err := tk.ToDagCbor(pk)
		return func() string { return fmt.Sprintf("%s %x", errStr(err), harnessCID(b)) }
	case "ToDagJson":
		b, err := tk.ToDagJson(pk)
		return func() string { return fmt.Sprintf("%s %x", errStr(err), harnessCID(b)) }
	case "Encode":
		b, err := tk.Encode(pk, dagcbor.Encode)
		return func() string { return fmt.Sprintf("%s %x", errStr(err), harnessCID(b)) }
	case "Accessors":
		x := rawOf(tk)
		return func() string { return x.render().Content() }
	case "IsValid":
		a, b, c := tk.IsValidNow(), tk.IsValidAt(schedFixedTime), tk.IsValidAt(time.Unix(1<<40, 0))
		return func() string { return fmt.Sprint(a, b, c) }
	case "ArgsIter":
		if !isInv {
			return dash
		}
		var ks []string
		var vs []datamodel.Node
		for k, v := range inv.Arguments().Iter() {
			ks, vs = append(ks, k), append(vs, v)
		}
		return pairs(ks, vs)
	case "ArgsString":
		if !isInv {
			return dash
		}
		s := inv.Arguments().String()
		return func() string { return sortedLines(s) }
	case "ArgsToIPLD":
		if !isInv {
			return dash
		}
		n, err := inv.Arguments().ToIPLD()
		return func() string {
			if err != nil {
				return "error"
			}
			return nodeHex(n)
		}
	case "ArgsGetNode":
		if !isInv {
			return dash
		}
		n, err := inv.Arguments().GetNode(arg)
		return func() string {
			if err != nil {
				return "error"
			}
			return nodeHex(n)
		}
	case "ArgsEquals":
		if !isInv {
			return dash
		}
		eq := inv.Arguments().Equals(inv.Arguments().WriteableClone().ReadOnly())
		return func() string { return fmt.Sprint(eq) }
	case "ArgsClone":
		if !isInv {
			return dash
		}
		c := inv.Arguments().WriteableClone()
		var ks []string
		var vs []datamodel.Node
		for k, v := range c.Iter() {
			ks, vs = append(ks, k), append(vs, v)
		}
		return pairs(ks, vs)
	case "ArgsCloneMutate":
		// writing to a clone is legitimate and must leave the token alone
		if !isInv {
			return dash
		}
		c := inv.Arguments().WriteableClone()
		err := c.Add("zz-added-by-clone-owner", "x")
		for k := range c.Values {
			c.Values[k] = nil
			break
		}
		if len(c.Keys) > 1 {
			c.Keys[0], c.Keys[len(c.Keys)-1] = c.Keys[len(c.Keys)-1], c.Keys[0]
		}
		return func() string { return errStr(err) }
	case "MetaCloneMutate":
		c := metaOf(tk).WriteableClone()
		err := c.Add("zz-added-by-clone-owner", "x")
		for k := range c.Values {
			c.Values[k] = nil
			break
		}
		if len(c.Keys) > 1 {
			c.Keys[0], c.Keys[len(c.Keys)-1] = c.Keys[len(c.Keys)-1], c.Keys[0]
		}
		return func() string { return errStr(err) }
	case "ExecutionAllowedHookAdd":
		err := w.inv.ExecutionAllowedWithArgsHook(w.store, func(ro args.ReadOnly) (*args.Args, error) {
			c := ro.WriteableClone()
			_ = c.Add("zz-added-by-hook", 1)
			return c, nil
		})
		return func() string { return errStr(err) }
	case "ExecutionAllowedHookInclude":
		// the other way to write such a hook: a fresh collection, Include, Add
		var addErr error
		err := w.inv.ExecutionAllowedWithArgsHook(w.store, func(ro args.ReadOnly) (*args.Args, error) {
			c := args.New()
			c.Include(ro)
			addErr = c.Add("zz-added-by-hook", 1)
			return c, addErr
		})
		return func() string { return errStr(err) + "/" + errStr(addErr) }
	case "MetaIter":
		var ks []string
		var vs []datamodel.Node
		for k, v := range metaOf(tk).Iter() {
			ks, vs = append(ks, k), append(vs, v)
		}
		return pairs(ks, vs)
	case "MetaString":
		s := metaOf(tk).String()
		return func() string { return sortedLines(s) }
	case "MetaGet":
		m := metaOf(tk)
		s, e1 := m.GetString(arg)
		i, e2 := m.GetInt64(arg)
		b, e3 := m.GetBytes(arg)
		n, e4 := m.GetNode(arg)
		bo, e5 := m.GetBool(arg)
		f, e6 := m.GetFloat64(arg)
		return func() string {
			return fmt.Sprint(s, errStr(e1), i, errStr(e2), b, errStr(e3), nodeHex(n), errStr(e4), bo, errStr(e5), f, errStr(e6))
		}
	case "MetaGetEncrypted":
		m := metaOf(tk)
		s, e1 := m.GetEncryptedString(arg, w.encKey)
		b, e2 := m.GetEncryptedBytes(arg, w.encKey)
		return func() string { return fmt.Sprint(s, errStr(e1), b, errStr(e2)) }
	case "EncryptOwn":
		// every caller encrypts into a Meta of its own (nothing is shared at the API level) and
		// reads its values back; the stored values are collected for the nonce-freshness oracle
		m := meta.NewMeta()
		e1 := m.AddEncrypted("s", "a secret string for "+arg, w.encKey)
		e2 := m.AddEncrypted("b", []byte("secret bytes for "+arg), w.encKey)
		s, e3 := m.GetEncryptedString("s", w.encKey)
		b, e4 := m.GetEncryptedBytes("b", w.encKey)
		c1, _ := m.GetBytes("s")
		c2, _ := m.GetBytes("b")
		w.encMu.Lock()
		w.encStored = append(w.encStored, append([]byte{}, c1...), append([]byte{}, c2...))
		w.encMu.Unlock()
		return func() string { return fmt.Sprint(errStr(e1), errStr(e2), s, errStr(e3), string(b), errStr(e4)) }
	case "MetaEquals":
		m := metaOf(tk)
		eq := m.Equals(m.WriteableClone().ReadOnly())
		return func() string { return fmt.Sprint(eq) }
	case "MetaClone":
		c := metaOf(tk).WriteableClone()
		var ks []string
		var vs []datamodel.Node
		for k, v := range c.Iter() {
			ks, vs = append(ks, k), append(vs, v)
		}
		return pairs(ks, vs)
	case "PolicyString":
		if dlg == nil {
			return dash
		}
		s := dlg.Policy().String()
		return func() string { return s }
	case "PolicyMatch":
		if dlg == nil {
			return dash
		}
		n, err := w.inv.Arguments().WriteableClone().ToIPLD()
		if err != nil {
			return func() string { return "error" }
		}
		ok, _ := dlg.Policy().Match(n)
		return func() string { return fmt.Sprint(ok) }
	case "Derived":
		// values derived from the token's fields: DID text and key, command segments and
		// coverage, policy as IPLD and its partial match, generic store lookups
		var iss did.DID
		if isInv {
			iss = inv.Issuer()
		} else {
			iss = dlg.Issuer()
		}
		is := iss.String()
		pub, perr := iss.PubKey()
		var pubRaw []byte
		if perr == nil {
			pubRaw, _ = pub.Raw()
		}
		var cmdS string
		var segs []string
		var cov, covTop bool
		var aud, sub string
		var polNode datamodel.Node
		var polErr error
		var pm bool
		if isInv {
			c := inv.Command()
			cmdS, segs, cov, covTop = c.String(), c.Segments(), c.Covers(c.Join("x")), command.Top().Covers(c)
			aud, sub = inv.Audience().String(), inv.Subject().String()
		} else {
			c := dlg.Command()
			cmdS, segs, cov, covTop = c.String(), c.Segments(), c.Covers(w.inv.Command()), command.Top().Covers(c)
			aud, sub = dlg.Audience().String(), dlg.Subject().String()
			polNode, polErr = dlg.Policy().ToIPLD()
			if n, err := w.inv.Arguments().WriteableClone().ToIPLD(); err == nil {
				pm, _ = dlg.Policy().PartialMatch(n)
			}
		}
		var gen []rawRec
		for _, c := range w.cids[:len(w.dlgs)] {
			if t, err := w.store.GetToken(c); err == nil {
				gen = append(gen, rawOf(t))
			}
		}
		return func() string {
			out := fmt.Sprintf("%s %x %s %s %s %v %v %v %s %v", is, pubRaw, errStr(perr), aud, sub, segs, cov, covTop, cmdS, pm)
			if polNode != nil {
				out += " " + nodeHex(polNode)
			}
			out += " " + errStr(polErr)
			for _, g := range gen {
				out += ";" + g.render().Content()
			}
			return out
		}
	case "DecodeSealed", "DecodeForged", "DecodeTyped", "DecodeForgedTyped", "DecodeDagCbor", "DecodeForgedDagCbor":
		// decoders running side by side on honest bytes and on a forgery carrying the same
		// signature: whatever comes back must be what was signed
		idx := len(w.sealed) - 1
		if !isInv {
			fmt.Sscanf(target, "dlg%d", &idx)
			idx %= len(w.dlgs)
		}
		data := w.sealed[idx]
		forged := strings.Contains(op, "Forged")
		if forged {
			if data = w.forged[idx]; data == nil {
				return dash
			}
		}
		var got token.Token
		var err error
		switch {
		case strings.HasSuffix(op, "Typed"):
			if isInv {
				var t *invocation.Token
				t, _, err = invocation.FromSealed(data)
				if err == nil {
					got = t
				}
			} else {
				var t *delegation.Token
				t, _, err = delegation.FromSealed(data)
				if err == nil {
					got = t
				}
			}
		case strings.HasSuffix(op, "DagCbor"):
			got, err = token.FromDagCbor(data)
		default:
			got, _, err = token.FromSealed(data)
		}
		honest := rawOf(tk)
		var rec rawRec
		if err == nil && !isNilTok(got) {
			rec = rawOf(got)
		}
		return func() string {
			if err != nil || rec.kind == "" {
				return "rejected"
			}
			if rec.render().Content() != honest.render().Content() {
				return "ACCEPTED-UNSIGNED-CONTENT " + diffRec(honest.render(), rec.render())
			}
			return "accepted-as-signed"
		}
	case "ResolveKeys":
		// public keys of principals of every algorithm, resolved from their did:keys by several
		// callers at once (each resolution gives the key of ITS identifier)
		var out []string
		for _, alg := range []string{"p256", "p256", "p384", "p521", "ed25519", "secp256k1"} {
			for k := 0; k < 2; k++ {
				ent := key(normPrincipal(Principal{alg, (k + len(arg)) % 2}))
				d, err := did.Parse(ent.id.String())
				if err != nil {
					out = append(out, "parse:"+err.Error())
					continue
				}
				pk, err := d.PubKey()
				if err != nil || pk == nil {
					out = append(out, "pubkey:"+errStr(err))
					continue
				}
				raw, _ := pk.Raw()
				want, _ := ent.priv.GetPublic().Raw()
				out = append(out, fmt.Sprint(bytes.Equal(raw, want)))
			}
		}
		return func() string { return strings.Join(out, ",") }
	case "PrincipalChurn":
		// a long-running service: a few hundred other principals are parsed, resolved and printed
		// (whatever the library remembers of them must not change what the shared tokens say)
		for i := 0; i < 320; i++ {
			raw := append([]byte{0xed, 0x01}, labelNonce(fmt.Sprint("sched-churn", arg, i), 32)...)
			if d, err := did.Parse("did:key:z" + b58(raw)); err == nil {
				_ = d.String()
				_, _ = d.PubKey()
			}
		}
		return func() string { return "done" }
	case "StreamSealUnseal":
		// the streaming forms side by side with other callers' (unrelated tokens, own sinks and
		// sources): the CID reported is the hash of the bytes written / read, and the same as alone
		idx := len(w.sealed) - 1
		if !isInv {
			fmt.Sscanf(target, "dlg%d", &idx)
			idx %= len(w.dlgs)
		}
		var buf bytes.Buffer
		c1, e1 := tk.ToSealedWriter(&buf, pk)
		_, c2, e2 := token.FromSealedReader(bytes.NewReader(w.sealed[idx]))
		okW := e1 == nil && bytes.Equal(c1.Bytes(), harnessCID(buf.Bytes()))
		okR := e2 == nil && bytes.Equal(c2.Bytes(), harnessCID(w.sealed[idx]))
		return func() string { return fmt.Sprintf("%s %v %s %s %v %s", errStr(e1), okW, c1, errStr(e2), okR, c2) }
	case "DecodeContainer":
		rd, err := container.FromCar(w.carAll)
		n := len(rd)
		return func() string { return fmt.Sprintf("%s %d", errStr(err), n) }
	case "PolicyMatchAlt":
		// the same policy evaluated against OTHER data (lists and strings of another length):
		// nothing learnt from one evaluation may leak into the next
		if dlg == nil {
			return dash
		}
		k := 0
		fmt.Sscanf(arg, "%d", &k)
		alt := args.New()
		for key, v := range w.inv.Arguments().Iter() {
			switch v.Kind() {
			case datamodel.Kind_List:
				var items []any
				for rep := 0; rep <= k; rep++ {
					it := v.ListIterator()
					for !it.Done() {
						_, e, err := it.Next()
						if err != nil {
							break
						}
						items = append(items, e)
					}
				}
				if k == 3 {
					items = items[:1]
				}
				alt.Add(key, items)
			case datamodel.Kind_String:
				str, _ := v.AsString()
				alt.Add(key, strings.Repeat("é", k)+str+strings.Repeat("z", k))
			default:
				alt.Add(key, v)
			}
		}
		n, err := alt.ToIPLD()
		if err != nil {
			return func() string { return "error" }
		}
		ok, _ := dlg.Policy().Match(n)
		pok, _ := dlg.Policy().PartialMatch(n)
		return func() string { return fmt.Sprint(ok, pok) }
	case "StoreGet":
		var raws []rawRec
		var errs []error
		for _, c := range w.cids[:len(w.dlgs)] {
			d, err := w.store.GetDelegation(c)
			errs = append(errs, err)
			if err == nil {
				raws = append(raws, rawOf(d))
			} else {
				raws = append(raws, rawRec{})
			}
		}
		return func() string {
			var out []string
			for i, e := range errs {
				if e != nil {
					out = append(out, "error")
				} else {
					out = append(out, raws[i].render().Content())
				}
			}
			return strings.Join(out, ";")
		}
	case "StoreIter":
		var cs []cid.Cid
		var raws []rawRec
		for c, d := range w.store.GetAllDelegations() {
			cs, raws = append(cs, c), append(raws, rawOf(d))
		}
		return func() string {
			var out []string
			for i, c := range cs {
				out = append(out, c.String()+raws[i].render().Content())
			}
			sort.Strings(out)
			return strings.Join(out, ";")
		}
	case "ContainerWrite":
		wr := container.NewWriter()
		for i, b := range w.sealed {
			wr.AddSealed(w.cids[i], b)
		}
		b, err := wr.ToCar()
		return func() string {
			if err != nil {
				return "error"
			}
			f, perr := parseCAR(b)
			if perr != nil {
				return "unparseable"
			}
			var es [][]byte
			for _, bl := range f.Blocks {
				es = append(es, bl.Data)
			}
			return strings.Join(entrySet(es), ",")
		}
	}
	return func() string { return "unknown-op" }
}

var _ io.Writer = (*discard)(nil)

// ------------------------------------------------------------------ executor

var raceLogPath string // set by the worker from GORACE (log_path=...)

func raceLogRead(from int64) (string, int64) {
	if raceLogPath == "" {
		return "", from
	}
	b, err := os.ReadFile(fmt.Sprintf("%s.%d", raceLogPath, os.Getpid()))
	if err != nil || int64(len(b)) <= from {
		return "", from
	}
	return string(b[from:]), int64(len(b))
}

var raceLogPos int64

func allSchedOps(p *SchedPlan) []string {
	seen := map[string]bool{}
	var out []string
	for _, l := range p.Ops {
		for _, o := range l {
			if !seen[o] {
				seen[o] = true
				out = append(out, o)
			}
		}
	}
	return out
}

// safely runs harness-side rendering or a whole operation; a panic becomes a result string
// (a read-only operation that panics on a token another operation has been through is a
// result that differs from the one it gives alone)
func safely(f func() string) (out string) {
	defer func() {
		if r := recover(); r != nil {
			out = fmt.Sprintf("PANIC: %v", r)
		}
	}()
	return f()
}

func safeOp(w *schedWorld, name string) string {
	return safely(func() string { return schedOp(w, name)() })
}

func (w *schedWorld) snapshot() string {
	return safely(w.snapshotRaw)
}

func (w *schedWorld) snapshotRaw() string {
	var s []string
	for _, d := range w.dlgs {
		s = append(s, recOf(d).Ordered())
	}
	s = append(s, recOf(w.inv).Ordered())
	return strings.Join(s, "\n")
}

var schedT *testing.T
var schedSeed uint64

func execSched(t *testing.T, pl Plan, seed uint64, o *Outcome) {
	schedT, schedSeed = t, seed
	p := pl.(*SchedPlan)
	if len(p.Ops) == 0 {
		return
	}
	shared, err := buildSchedWorld(p)
	if err != nil {
		o.Logf("sched world cannot be built: %v", err != nil)
		o.Probe("world_not_built")
		return
	}
	o.Eval("C20")
	if shared.firstSeal != "" {
		o.Violate("C20", "token-mutated", "the first sealing of a freshly constructed token changed it: "+shared.firstSeal, map[string]string{"op": "ToSealed(first)"})
	}
	shared.warm(p)
	raceLogRead(0)
	_, raceLogPos = raceLogRead(raceLogPos)

	// ---- pass A: K goroutines under the baton, nothing but the operations
	k := len(p.Ops)
	pending := make([][]func() string, k)
	results := make([][]string, k)
	panics := make([]string, k)
	var wg sync.WaitGroup
	batonSet(-1)
	for g := 0; g < k; g++ {
		g := g
		wg.Add(1)
		go func() {
			defer wg.Done()
			for _, name := range p.Ops[g] {
				batonWait(int32(g))
				func() {
					defer func() {
						if r := recover(); r != nil {
							panics[g] = name
							pending[g] = append(pending[g], func() string { return "panic" })
						}
					}()
					pending[g] = append(pending[g], schedOp(shared, name))
				}()
				batonSet(-1)
			}
		}()
	}
	next := make([]int, k)
	var order [][2]int
	for _, g := range p.Inter {
		if g < 0 || g >= k || next[g] >= len(p.Ops[g]) {
			continue
		}
		order = append(order, [2]int{g, next[g]})
		next[g]++
		batonSet(int32(g))
		batonWait(-1)
	}
	// operations not scheduled by the interleaving run at the end, goroutine by goroutine
	for g := 0; g < k; g++ {
		for next[g] < len(p.Ops[g]) {
			order = append(order, [2]int{g, next[g]})
			next[g]++
			batonSet(int32(g))
			batonWait(-1)
		}
	}
	wg.Wait()
	for g := range pending {
		for _, f := range pending[g] {
			results[g] = append(results[g], safely(f))
		}
	}
	for g, pm := range panics {
		if pm != "" {
			o.Violate("C20", "panic-under-concurrency", fmt.Sprintf("goroutine %d: %s", g, pm), nil)
		}
	}

	// ---- oracle 1: race reports with a go-ucan frame
	newLog, pos := raceLogRead(raceLogPos)
	raceLogPos = pos
	o.Eval("C20")
	nRaces := 0
	c06race := false
	c19race := false
	c08race := false
	for _, rep := range strings.Split(newLog, "==================") {
		if !strings.Contains(rep, "WARNING: DATA RACE") || !strings.Contains(rep, "github.com/ucan-wg/go-ucan/") {
			continue
		}
		nRaces++
		if nRaces == 1 {
			o.Violate("C20", "data-race", "race detector report with a go-ucan frame: "+raceSummary(rep), map[string]string{"frames": raceSummary(rep)})
		}
		if !c08race && (strings.Contains(rep, "envelope.cidFromHash") || strings.Contains(rep, "envelope.(*CIDWriter)") || strings.Contains(rep, "envelope.(*CIDReader)") || strings.Contains(rep, "envelope.CIDFromBytes")) {
			// content addresses computed side by side conflict on shared state: which bytes a
			// reported CID is the hash of is then no longer defined
			c08race = true
			o.Violate("C08", "cid-data-race", "content addresses computed side by side race with each other: "+raceSummary(rep), map[string]string{"frames": raceSummary(rep)})
		}
		if !c19race && (strings.Contains(rep, "go-ucan/pkg/meta/internal/crypto.") || strings.Contains(rep, "meta.(*Meta).AddEncrypted") || strings.Contains(rep, "GetEncrypted")) {
			// encryptions / decryptions running side by side conflict on shared state (a nonce
			// source, a scratch buffer): freshness and integrity are then no longer defined
			c19race = true
			o.Violate("C19", "encryption-data-race", "encrypted-metadata calls running side by side race with each other: "+raceSummary(rep), map[string]string{"frames": raceSummary(rep)})
		}
		if !c06race && strings.Contains(rep, "go-ucan/token/internal/envelope.") && (strings.Contains(rep, "envelope.FromIPLD") || strings.Contains(rep, "envelope.fromIPLD") || strings.Contains(rep, "envelope.FromDag") || strings.Contains(rep, ".FromSealed")) {
			// two decoders running side by side conflict on state of the verifying path: which
			// bytes a signature was checked over is then no longer defined
			c06race = true
			o.Violate("C06", "decoder-data-race", "decoders running side by side race inside the verifying path: "+raceSummary(rep), map[string]string{"frames": raceSummary(rep)})
		}
	}
	// nonce freshness across callers: no two stored ciphertexts begin with the same 24 bytes
	seenNonce := map[string]bool{}
	for _, c := range shared.encStored {
		if len(c) < 24 {
			continue
		}
		o.Eval("C19")
		if seenNonce[string(c[:24])] {
			o.Violate("C19", "nonce-reused", "two encryptions made side by side by different callers carry the same nonce", map[string]string{"where": "concurrent callers"})
			break
		}
		seenNonce[string(c[:24])] = true
	}
	o.Logf("sched passA ops=%d goroutines=%d races=%d", len(order), k, nRaces)

	// ---- pass B: same order on one goroutine, private copy, snapshots around every operation
	priv, err := buildSchedWorld(p)
	if err != nil {
		// the very same tokens were constructed, sealed and decoded before the operations ran:
		// read-only operations have changed something process-wide that construction depends on
		o.Eval("C20")
		o.Violate("C20", "result-changed-later", fmt.Sprintf("after the read-only operations ran, the tokens of the plan can no longer be constructed, sealed and decoded again: %v", err), map[string]string{"op": "rebuild"})
		return
	}
	type heldRes struct {
		name   string
		render func() string
		first  string
	}
	var heldB []heldRes
	for _, gi := range order {
		g, i := gi[0], gi[1]
		name := p.Ops[g][i]
		before := priv.snapshot()
		var fB func() string
		resB := safely(func() string { fB = schedOp(priv, name); return "" })
		after := priv.snapshot()
		if fB != nil {
			resB = safely(fB)
			heldB = append(heldB, heldRes{name, fB, resB})
		}
		o.Eval("C20")
		if before != after {
			o.Violate("C20", "token-mutated", fmt.Sprintf("read-only operation %s changed a token: %s", name, firstDiff(before, after)), map[string]string{"op": strings.SplitN(name, ":", 3)[1]})
		}
		solo, err := buildSchedWorld(p)
		if err != nil {
			continue
		}
		resSolo := safeOp(solo, name)
		resA := results[g][i]
		opKind := strings.SplitN(name, ":", 3)[1]
		if strings.HasPrefix(opKind, "Decode") {
			o.Eval("C06")
			o.Sig("C06", "concurrent-decoders", opKind, resSolo)
			for _, res := range []string{resA, resB, resSolo} {
				if strings.HasPrefix(res, "ACCEPTED-UNSIGNED-CONTENT") {
					o.Violate("C06", "forged-content-accepted", fmt.Sprintf("%s returned a token whose content its issuer never signed: %s", name, res), map[string]string{"mutation": "same-length rewrite under the old signature, decoders side by side"})
					break
				}
			}
		}
		if strings.HasPrefix(resSolo, "PANIC") {
			o.Violate("C20", "panic-in-read-only-operation", fmt.Sprintf("operation %s alone on a fresh token: %s", name, resSolo), map[string]string{"op": opKind})
		} else if resA != resSolo || resB != resSolo {
			o.Violate("C20", "result-differs", fmt.Sprintf("operation %s: concurrent=%.60q sequential=%.60q alone=%.60q", name, resA, resB, resSolo), map[string]string{"op": strings.SplitN(name, ":", 3)[1]})
		}
		o.Logf("op g%d %s -> %016x", g, name, fnv64(resSolo))
	}
	// what an operation returned belongs to the caller: rendered again after all later operations
	// it must still read the same
	for _, h := range heldB {
		o.Eval("C20")
		if again := safely(h.render); again != h.first {
			o.Violate("C20", "result-changed-later", fmt.Sprintf("the result of %s changed after later read-only operations: %.60q -> %.60q", h.name, h.first, again), map[string]string{"op": strings.SplitN(h.name, ":", 3)[1]})
			break
		}
	}
	// signature: multiset of operation kinds per goroutine, interleaving, provenance, key-order class
	var sig []string
	for _, l := range p.Ops {
		ks := []string{}
		for _, n := range l {
			ks = append(ks, strings.SplitN(n, ":", 3)[1])
		}
		sort.Strings(ks)
		sig = append(sig, strings.Join(ks, "+"))
	}
	inter := ""
	for _, gi := range order {
		inter += fmt.Sprint(gi[0])
	}
	o.Sig("C20", sig, inter, p.Decoded, len(p.Inv.Args), len(p.Inv.Meta))
	cross := 0
	for a := 0; a < len(order); a++ {
		for b := a + 1; b < len(order); b++ {
			if order[a][0] != order[b][0] {
				cross++
			}
		}
	}
	o.Probes["unordered_cross_goroutine_op_pairs"] += cross
}

func firstDiff(a, b string) string {
	la, lb := strings.Split(a, "|"), strings.Split(b, "|")
	for i := range la {
		if i < len(lb) && la[i] != lb[i] {
			return fmt.Sprintf("field %d: %.80s -> %.80s", i, la[i], lb[i])
		}
	}
	return "?"
}

func raceSummary(rep string) string {
	var fr []string
	for _, l := range strings.Split(rep, "\n") {
		l = strings.TrimSpace(l)
		if strings.HasPrefix(l, "github.com/ucan-wg/go-ucan/") {
			fr = append(fr, strings.TrimPrefix(l, "github.com/ucan-wg/go-ucan/"))
			if len(fr) == 4 {
				break
			}
		}
	}
	return strings.Join(fr, " <- ")
}

// ------------------------------------------------------------------ generator

func genSched(r *Rand, g GenCfg) Plan {
	p := &SchedPlan{Decoded: r.Chance(0.5)}
	n := r.Range(3, 5)
	for i := 0; i < n; i++ {
		alg := "ed25519"
		if r.Chance(0.15) {
			alg = "secp256k1"
		}
		p.Cast = append(p.Cast, Principal{alg, i % poolSize[alg]})
	}
	// argument keys such that insertion order, DAG-CBOR (length-first) order and
	// sort.Strings order all differ
	keyPool := []string{"zz", "b", "aaa", "c", "ab", "a", "n", "s", "l", "m", "x9", "k10", "k2", "Z", "_", "é"}
	nk := []int{0, 1, 2, 3, 5, 8, 12, 16, 20}[r.Intn(9)]
	perm := r.Perm(len(keyPool))
	var argv []KV
	for i := 0; i < nk; i++ {
		key := keyPool[perm[i%len(keyPool)]]
		if i >= len(keyPool) {
			key += fmt.Sprint(i)
		}
		var v Val
		switch r.Intn(5) {
		case 0:
			v = vInt(int64(r.Range(-100, 100)))
		case 1:
			v = vStr(randWord(r, 0, 5))
		case 2:
			v = vList(vInt(1), vInt(int64(r.Intn(9))))
		case 3:
			v = vMap(KV{"x", vInt(int64(r.Intn(9)))}, KV{"y", vStr("q")})
		default:
			v = vBool(r.Chance(0.5))
		}
		argv = append(argv, KV{key, v})
	}
	nl := r.Range(1, 4)
	sub := 0
	holders := []int{sub}
	for i := 0; i < nl; i++ {
		holders = append(holders, r.Intn(len(p.Cast)))
	}
	mkMeta := func() []MetaSpec {
		var ms []MetaSpec
		mk := r.Perm(len(keyPool))
		for i := r.Range(0, 6); i > 0; i-- {
			ms = append(ms, MetaSpec{Key: keyPool[mk[i]], V: ptr(Pick(r, []Val{vInt(int64(i)), vStr("v"), vBool(true), vBytes([]byte{1, 2})}))})
		}
		return ms
	}
	far := int64(4102444800 - simEpochUnix) // 2100-01-01
	for k := 0; k < nl; k++ {
		d := DlgSpec{Label: fmt.Sprintf("d%d", k), Iss: holders[k], Aud: holders[k+1], Sub: sub, Cmd: "/", NonceLen: 12, Meta: mkMeta()}
		if r.Chance(0.5) {
			d.Pol = genPolicy(r, argv, r.Range(0, 4))
		}
		if len(argv) >= 2 && r.Chance(0.35) {
			// statements that walk the ROOT of the arguments (every argument in turn): whatever
			// they evaluate to, they evaluate to the same thing every time
			d.Pol = append(d.Pol, Pick(r, []Stmt{
				{Op: "or", Kids: []Stmt{{Op: "any", Sel: ".[]", Kids: []Stmt{{Op: "==", Sel: ".x", Val: ptr(vInt(int64(r.Intn(9))))}}}, {Op: "==", Sel: ".zz?", Val: ptr(vInt(1))}}},
				{Op: "or", Kids: []Stmt{{Op: "any", Sel: ".[]", Kids: []Stmt{{Op: "==", Sel: ".y", Val: ptr(vStr("q"))}}}, {Op: "==", Sel: ".zz?", Val: ptr(vInt(1))}}},
				{Op: "or", Kids: []Stmt{{Op: "all", Sel: ".[]", Kids: []Stmt{{Op: "==", Sel: ".[0]?", Val: ptr(vInt(1))}}}, {Op: "==", Sel: ".zz?", Val: ptr(vInt(1))}}},
			}))
		}
		d.PolSpare = r.Chance(0.4)
		if r.Chance(0.4) {
			d.Exp = &far
			if r.Chance(0.5) {
				d.SubMilli = int64(r.Range(1, 999))
			}
		}
		p.Dlgs = append(p.Dlgs, d)
	}
	p.Inv = InvSpec{Label: "i", Iss: holders[nl], Sub: sub, Aud: -1, Cmd: "/a/b", Args: argv, NonceLen: 12, Meta: mkMeta()}
	if r.Chance(0.15) {
		p.DupPrf = 1 + r.Intn(4)
	}
	p.AudIsSub = r.Chance(0.3)
	p.EncKey = r.Bytes(32)
	p.EncKey[0] |= 1
	if r.Chance(0.3) {
		p.Inv.Meta = append(p.Inv.Meta, MetaSpec{Key: "sec", Secret: []byte("hidden value"), EncKey: p.EncKey, AsStr: true})
		// a second entry of another length, stored as bytes: what one read returned must still be
		// there after the other entry has been read
		p.Inv.Meta = append(p.Inv.Meta, MetaSpec{Key: "sec2", Secret: []byte("ANOTHER, LONGER HIDDEN VALUE 0123456789"), EncKey: p.EncKey, AsStr: false})
	}
	// operations
	targets := []string{"inv", "inv", "inv"}
	for i := 0; i < nl; i++ {
		targets = append(targets, fmt.Sprintf("dlg%d", i))
	}
	invOps := []string{"ExecutionAllowed", "ExecutionAllowed", "ExecutionAllowed", "ExecutionAllowed", "ExecutionAllowed", "ExecutionAllowedHook", "ExecutionAllowedEmptyStore", "ExecutionAllowedPartialStore", "ToSealed", "ToSealedWriter", "ToSealedWriterAfterFailure", "SealScribbleSeal", "ToDagCbor", "ToDagJson", "Encode", "Accessors", "Derived", "IsValid",
		"ArgsIter", "ArgsString", "ArgsToIPLD", "ArgsGetNode", "ArgsEquals", "ArgsClone", "ArgsCloneMutate", "MetaCloneMutate", "ExecutionAllowedHookAdd", "ExecutionAllowedHookInclude", "ExecutionAllowedHookInclude", "MetaIter", "MetaString", "MetaGet", "MetaGetEncrypted", "MetaEquals", "MetaClone",
		"StoreGet", "StoreIter", "ContainerWrite"}
	dlgOps := []string{"ToSealed", "ToSealedWriter", "ToSealedWriterAfterFailure", "SealScribbleSeal", "SealScribbleSeal", "ToDagJson", "Encode", "Accessors", "Derived", "Derived", "IsValid", "MetaIter", "MetaString", "MetaGet", "MetaEquals", "MetaClone", "MetaCloneMutate", "PolicyString", "PolicyMatch", "PolicyMatchAlt", "PolicyMatchAlt", "StoreGet"}
	decodeOps := []string{"DecodeSealed", "DecodeForged", "DecodeTyped", "DecodeForgedTyped", "DecodeDagCbor", "DecodeForgedDagCbor", "DecodeContainer"}
	if g.Focus == "C08" {
		// sealing and unsealing only, streaming and buffered, by callers side by side
		invOps = []string{"StreamSealUnseal", "StreamSealUnseal", "ToSealed", "ToSealedWriter", "DecodeSealed", "ContainerWrite"}
		dlgOps = []string{"StreamSealUnseal", "StreamSealUnseal", "ToSealed", "ToSealedWriter", "DecodeSealed"}
	} else if g.Focus == "C19" {
		// encrypted metadata only: callers encrypting into Metas of their own, readers of the
		// shared token's encrypted entries
		invOps = []string{"EncryptOwn", "EncryptOwn", "MetaGetEncrypted", "MetaClone"}
		dlgOps = []string{"EncryptOwn"}
	} else if g.Focus == "C06" {
		// decoders only, honest and forged bytes of the same token side by side
		invOps, dlgOps = decodeOps, decodeOps
	} else {
		invOps = append(invOps, "EncryptOwn", "StreamSealUnseal", "PrincipalChurn", "ResolveKeys", "ResolveKeys")
		dlgOps = append(dlgOps, "ResolveKeys")
		dlgOps = append(dlgOps, "StreamSealUnseal")
		invOps = append(invOps, "DecodeSealed", "DecodeForged", "DecodeContainer")
		dlgOps = append(dlgOps, "DecodeSealed", "DecodeForged", "DecodeTyped")
	}
	k := r.Range(2, 4)
	p.Ops = make([][]string, k)
	for g := 0; g < k; g++ {
		for i := r.Range(1, 6); i > 0; i-- {
			t := Pick(r, targets)
			var op string
			if t == "inv" {
				op = Pick(r, invOps)
			} else {
				op = Pick(r, dlgOps)
			}
			name := t + ":" + op
			switch op {
			case "ArgsGetNode":
				if len(argv) > 0 {
					name += ":" + argv[r.Intn(len(argv))].Key
				} else {
					name += ":none"
				}
			case "PolicyMatchAlt":
				name += ":" + fmt.Sprint(r.Intn(4))
			case "MetaGet":
				name += ":" + Pick(r, keyPool)
			case "MetaGetEncrypted":
				name += ":" + Pick(r, []string{"sec", "sec2", "sec2"})
			case "EncryptOwn":
				name += ":" + fmt.Sprintf("g%d", g)
			case "PrincipalChurn":
				name += ":" + fmt.Sprintf("g%d-%d", g, i)
			case "ResolveKeys":
				name += ":" + strings.Repeat("x", g%2)
			}
			p.Ops[g] = append(p.Ops[g], name)
		}
	}
	if len(p.Inv.Meta) > 0 && p.Inv.Meta[len(p.Inv.Meta)-1].Key == "sec2" && r.Chance(0.7) {
		// two reads of DIFFERENT encrypted entries, on one goroutine or on two
		g1, g2 := r.Intn(k), r.Intn(k)
		first, second := "inv:MetaGetEncrypted:sec2", "inv:MetaGetEncrypted:sec"
		if r.Chance(0.3) {
			first, second = second, first
		}
		p.Ops[g1] = append([]string{first}, p.Ops[g1]...)
		i := r.Intn(len(p.Ops[g2]) + 1)
		if g1 == g2 && i == 0 {
			i = 1
		}
		p.Ops[g2] = append(p.Ops[g2][:i:i], append([]string{second}, p.Ops[g2][i:]...)...)
	}
	// interleaving
	var slots []int
	for g := 0; g < k; g++ {
		for range p.Ops[g] {
			slots = append(slots, g)
		}
	}
	for _, i := range r.Perm(len(slots)) {
		p.Inter = append(p.Inter, slots[i])
	}
	return p
}

func init() {
	register(&ScenarioDef{
		Name:  "sched",
		Props: []string{"C20", "C06", "C19", "C08"},
		Gen:   genSched,
		Exec:  execSched,
		Fresh: true,
		Decode: func(b []byte) (Plan, error) {
			var p SchedPlan
			if err := json.Unmarshal(b, &p); err != nil {
				return nil, err
			}
			return &p, nil
		},
	})
}
