package sim

import (
	"math/rand/v2"
)

// splitmix64 is the seed derivation function: one base seed (VERIF_SEED), a
// scenario name and a run index give the seed of that run.
func splitmix64(x uint64) uint64 {
	x += 0x9e3779b97f4a7c15
	z := x
	z = (z ^ (z >> 30)) * 0xbf58476d1ce4e5b9
	z = (z ^ (z >> 27)) * 0x94d049bb133111eb
	return z ^ (z >> 31)
}

func fnv64(s string) uint64 {
	h := uint64(14695981039346656037)
	for i := 0; i < len(s); i++ {
		h ^= uint64(s[i])
		h *= 1099511628211
	}
	return h
}

// RunSeed derives the seed of run i of a scenario from the base seed.
func RunSeed(base uint64, scenario string, i uint64) uint64 {
	return splitmix64(splitmix64(base^fnv64(scenario)) + i*0x9e3779b97f4a7c15)
}

// Rand is the only source of random choices in the harness. It is used by
// plan generators only; executors never draw from it.
type Rand struct {
	r *rand.Rand
}

func NewRand(seed uint64) *Rand {
	return &Rand{r: rand.New(rand.NewPCG(seed, splitmix64(seed)))}
}

func (r *Rand) Intn(n int) int {
	if n <= 0 {
		return 0
	}
	return r.r.IntN(n)
}

func (r *Rand) Int63() int64   { return r.r.Int64() }
func (r *Rand) Uint64() uint64 { return r.r.Uint64() }

// Range returns an integer in [lo, hi].
func (r *Rand) Range(lo, hi int) int {
	if hi <= lo {
		return lo
	}
	return lo + r.r.IntN(hi-lo+1)
}

func (r *Rand) Chance(p float64) bool { return r.r.Float64() < p }

func (r *Rand) Float() float64 { return r.r.Float64() }

func (r *Rand) Perm(n int) []int { return r.r.Perm(n) }

func (r *Rand) Bytes(n int) []byte {
	b := make([]byte, n)
	for i := range b {
		b[i] = byte(r.r.IntN(256))
	}
	return b
}

// Pick returns a random element.
func Pick[T any](r *Rand, xs []T) T {
	return xs[r.Intn(len(xs))]
}

// Weighted picks index i with probability w[i]/sum(w).
func (r *Rand) Weighted(w []int) int {
	sum := 0
	for _, x := range w {
		sum += x
	}
	if sum <= 0 {
		return 0
	}
	k := r.Intn(sum)
	for i, x := range w {
		if k < x {
			return i
		}
		k -= x
	}
	return len(w) - 1
}
