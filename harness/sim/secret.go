package sim

import (
	"bytes"
	"crypto/rand"
	"encoding/json"
	"errors"
	"fmt"
	"golang.org/x/crypto/nacl/secretbox"
	"io"
	"strings"
	"testing"
	"testing/synctest"

	"github.com/ucan-wg/go-ucan/pkg/command"
	"github.com/ucan-wg/go-ucan/pkg/meta"
	"github.com/ucan-wg/go-ucan/token"
	"github.com/ucan-wg/go-ucan/token/delegation"
	"github.com/ucan-wg/go-ucan/token/invocation"
)

// The `secret` scenario: encrypted metadata under the randomness seam (nonce
// freshness), flipped stored bits at every position, wrong keys. Decides C19.

type SecStep struct {
	Op   string `json:"op"` // roundtrip fresh flip_all trunc_all extend otherkey badkey confidential
	Lo   int    `json:"lo,omitempty"`
	Hi   int    `json:"hi,omitempty"`
	Kind string `json:"kind,omitempty"`
	N    int    `json:"n,omitempty"`
	Step int    `json:"step,omitempty"` // flip_all: stride over the bit positions (0 = every bit)
}

type SecretPlan struct {
	Cast  []Principal `json:"cast"`
	Key   []byte      `json:"key"`
	Plain []byte      `json:"plain"`
	AsStr bool        `json:"as_str,omitempty"`
	Kind  string      `json:"kind"` // dlg | inv
	Steps []SecStep   `json:"steps"`
}

func (p *SecretPlan) Len() int { return len(p.Steps) }
func (p *SecretPlan) Keep(keep []bool) Plan {
	q := *p
	q.Steps = nil
	for i, s := range p.Steps {
		if keep[i] {
			q.Steps = append(q.Steps, s)
		}
	}
	return &q
}
func (p *SecretPlan) clone() *SecretPlan {
	b, _ := json.Marshal(p)
	var q SecretPlan
	json.Unmarshal(b, &q)
	return &q
}
func (p *SecretPlan) Summary() map[string]any {
	var ops []string
	for _, s := range p.Steps {
		ops = append(ops, s.Op)
	}
	return map[string]any{"scenario": "secret", "plaintext_len": len(p.Plain), "as_string": p.AsStr, "token": p.Kind, "ops": ops}
}
func (p *SecretPlan) Simpler() []Plan {
	var out []Plan
	mut := func(f func(q *SecretPlan) bool) {
		q := p.clone()
		if f(q) {
			out = append(out, q)
		}
	}
	for i, s := range p.Steps {
		i := i
		if s.Op == "flip_all" || s.Op == "trunc_all" {
			hi := s.Hi
			if hi < 0 {
				hi = 1 << 20
			}
			if hi > s.Lo {
				mid := (s.Lo + hi) / 2
				mut(func(q *SecretPlan) bool { q.Steps[i].Hi = mid; return true })
				mut(func(q *SecretPlan) bool { q.Steps[i].Lo = mid + 1; q.Steps[i].Hi = hi; return true })
			}
		}
	}
	if len(p.Plain) > 0 {
		mut(func(q *SecretPlan) bool { q.Plain = q.Plain[:len(q.Plain)/2]; return true })
	}
	return out
}

func plainClass(b []byte) string {
	switch n := len(b); {
	case n == 0:
		return "empty"
	case n == 1:
		return "1"
	case n < 16:
		return "<16"
	case n == 16:
		return "16"
	case n < 1024:
		return "<1k"
	}
	return "big"
}

func execSecret(t *testing.T, pl Plan, seed uint64, o *Outcome) {
	p := pl.(*SecretPlan)
	c := cast{}
	for _, x := range p.Cast {
		c = append(c, normPrincipal(x))
	}
	if len(c) == 0 {
		c = cast{{"ed25519", 0}}
	}
	synctest.Test(t, func(t *testing.T) {
		defer func() {
			if r := recover(); r != nil {
				o.Harness(fmt.Sprintf("panic in secret executor: %v", r))
			}
		}()
		e := &secretExec{o: o, p: p, c: c}
		e.setup()
		for i := range p.Steps {
			e.step(&p.Steps[i])
		}
	})
}

type secretExec struct {
	o      *Outcome
	p      *SecretPlan
	c      cast
	stored []byte
	ok     bool
}

// faultyRand is crypto/rand.Reader failing after a number of good bytes.
type faultyRand struct {
	inner io.Reader
	good  int
	short bool
	fired bool
}

func (f *faultyRand) Read(p []byte) (int, error) {
	if f.good >= len(p) {
		n, err := f.inner.Read(p)
		f.good -= n
		return n, err
	}
	n := 0
	if f.good > 0 && f.short {
		n, _ = f.inner.Read(p[:f.good])
	}
	f.good = 0
	f.fired = true
	return n, errors.New("dsim: randomness source failed")
}

// hookRand runs a callback once, just before the first read from the randomness source.
type hookRand struct {
	inner  io.Reader
	before func()
	fired  bool
}

func (h *hookRand) Read(p []byte) (int, error) {
	if !h.fired {
		h.fired = true
		h.before()
	}
	return h.inner.Read(p)
}

func (e *secretExec) val() any {
	if e.p.AsStr {
		return string(e.p.Plain)
	}
	return append([]byte{}, e.p.Plain...)
}

func (e *secretExec) read(m interface {
	GetEncryptedString(string, []byte) (string, error)
	GetEncryptedBytes(string, []byte) ([]byte, error)
}, k string, key []byte) ([]byte, error) {
	if e.p.AsStr {
		s, err := m.GetEncryptedString(k, key)
		return []byte(s), err
	}
	return m.GetEncryptedBytes(k, key)
}

func (e *secretExec) sig(fault, outcome string) {
	e.o.Eval("C19")
	e.o.Sig("C19", plainClass(e.p.Plain), e.p.AsStr, e.p.Kind, fault, outcome)
}

func (e *secretExec) setup() {
	o := e.o
	m := meta.NewMeta()
	var err error
	if guard(o, "Meta.AddEncrypted", func() { err = m.AddEncrypted("k", e.val(), e.p.Key) }) {
		return
	}
	if err != nil {
		o.Violate("C19", "encrypt-refused", fmt.Sprintf("AddEncrypted with a valid 32-byte key failed: %v", err), nil)
		return
	}
	e.stored, err = m.GetBytes("k")
	if err != nil {
		o.Violate("C19", "stored-not-bytes", "the stored encrypted value is not a byte string", nil)
		return
	}
	e.ok = true
	if len(e.p.Plain) >= 16 {
		// nothing in this Meta may hold the plaintext, under any key
		for k, v := range m.Iter() {
			if bytes.Contains([]byte(nodeHex(v)), []byte(fmt.Sprintf("%x", e.p.Plain))) {
				o.Violate("C19", "plaintext-visible", "the plaintext occurs in the metadata entry "+k, nil)
			}
		}
	}
	// neither the key nor a long piece of it may be stored
	for k, v := range m.Iter() {
		h := nodeHex(v)
		if strings.Contains(h, fmt.Sprintf("%x", e.p.Key[:16])) || strings.Contains(h, fmt.Sprintf("%x", e.p.Key[16:])) {
			o.Violate("C19", "key-material-stored", "half of the encryption key occurs in the metadata entry "+k, nil)
		}
	}
	// a value added through one of the two APIs reads back through the other one
	if xs, xerr := m.GetEncryptedString("k", e.p.Key); xerr != nil || xs != string(e.p.Plain) {
		o.Violate("C19", "roundtrip", fmt.Sprintf("GetEncryptedString on the stored value: err=%v equal=%v", xerr, xs == string(e.p.Plain)), map[string]string{"api": "string"})
	}
	if xb, xerr := m.GetEncryptedBytes("k", e.p.Key); xerr != nil || !bytes.Equal(xb, e.p.Plain) {
		o.Violate("C19", "roundtrip", fmt.Sprintf("GetEncryptedBytes on the stored value: err=%v equal=%v", xerr, bytes.Equal(xb, e.p.Plain)), map[string]string{"api": "bytes"})
	}
	got, err := e.read(m, "k", e.p.Key)
	e.sig("none", "direct")
	if err != nil || !bytes.Equal(got, e.p.Plain) {
		o.Violate("C19", "roundtrip", fmt.Sprintf("value read back with the same key: err=%v equal=%v", err, bytes.Equal(got, e.p.Plain)), nil)
	}
	o.Logf("secret len=%d stored=%d", len(e.p.Plain), len(e.stored))
}

func (e *secretExec) withStored(b []byte) *meta.Meta {
	m := meta.NewMeta()
	if err := m.Add("k", b); err != nil {
		e.o.Harness("cannot store bytes in meta: " + err.Error())
	}
	return m
}

// buildToken builds and seals a token carrying the secret through the option
// API of its type.
func (e *secretExec) buildToken(label string) (token.Token, []byte, []byte, bool) {
	o := e.o
	var tk token.Token
	var err error
	ms := []MetaSpec{{Key: "k", Secret: e.p.Plain, EncKey: e.p.Key, AsStr: e.p.AsStr}}
	if e.p.Kind == "inv" {
		var x *invocation.Token
		x, err = buildInvocation(e.c, InvSpec{Label: label, Iss: 0, Sub: 1, Aud: -1, Cmd: "/a", Meta: ms}, nil)
		if x != nil {
			tk = x
		}
	} else {
		var x *delegation.Token
		x, err = buildDelegation(e.c, DlgSpec{Label: label, Iss: 0, Aud: 1, Sub: 0, Cmd: "/a", Meta: ms})
		if x != nil {
			tk = x
		}
	}
	if err != nil || tk == nil {
		o.Violate("C19", "encrypt-refused", fmt.Sprintf("token constructor with an encrypted metadata option failed: %v", err), nil)
		return nil, nil, nil, false
	}
	sealed, _, err := tk.ToSealed(e.c.ent(0).priv)
	if err != nil {
		return nil, nil, nil, false
	}
	js, err := tk.ToDagJson(e.c.ent(0).priv)
	if err != nil {
		js = nil
	}
	return tk, sealed, js, true
}

func metaOf(tk token.Token) meta.ReadOnly {
	switch t := tk.(type) {
	case *delegation.Token:
		return t.Meta()
	case *invocation.Token:
		return t.Meta()
	}
	return meta.NewMeta().ReadOnly()
}

func (e *secretExec) step(s *SecStep) {
	o := e.o
	if !e.ok {
		return
	}
	p := e.p
	switch s.Op {
	case "rngfault":
		// the randomness source fails while an encryption draws its nonce (at once, or after k
		// good bytes; as an error, or as a short read): the encryption must fail, or at least must
		// not store something under a predictable nonce
		for _, k := range []int{0, 1, 7, 23} {
			for _, shape := range []string{"error", "short"} {
				var stored [][]byte
				for rep := 0; rep < 2; rep++ {
					fr := &faultyRand{inner: rand.Reader, good: k, short: shape == "short"}
					old := rand.Reader
					rand.Reader = fr
					m := meta.NewMeta()
					var err error
					panicked := guard(o, "Meta.AddEncrypted under a failing randomness source", func() { err = m.AddEncrypted("k", e.val(), p.Key) })
					rand.Reader = old
					if panicked {
						return
					}
					o.Fault("rng_failure")
					e.sig("rngfault", fmt.Sprint(k, shape, err == nil, fr.fired))
					if err == nil && fr.fired {
						if b, gerr := m.GetBytes("k"); gerr == nil {
							stored = append(stored, b)
							zeros := 0
							for i := 23; i >= 0 && i < len(b) && b[i] == 0; i-- {
								zeros++
							}
							if zeros >= 16 {
								o.Violate("C19", "nonce-reused", fmt.Sprintf("the randomness source failed after %d bytes and the value was encrypted all the same, under a nonce ending in %d zero bytes", k, zeros), map[string]string{"rng": "failed"})
								return
							}
						}
					}
				}
				if len(stored) == 2 && bytes.Equal(stored[0], stored[1]) {
					o.Violate("C19", "nonce-reused", "with a failing randomness source two encryptions of the same value are identical", map[string]string{"rng": "failed"})
					return
				}
			}
		}
	case "sizes":
		// what is accepted reads back, whatever its size: lengths at and just below every power of
		// two up to 1 MiB (where limits on "the message" and on "the stored value", 40 bytes apart,
		// would disagree); a refusal at add time is fine, a stored value that cannot be read is not
		for k := 10; k <= 20; k++ {
			for _, d := range []int{0, 1, 16, 24, 39, 40, 41} {
				n := 1<<uint(k) - d
				plain := make([]byte, n)
				for i := range plain {
					plain[i] = byte('a' + (i+s.N)%26)
				}
				asStr := (k+d)%2 == 0
				m := meta.NewMeta()
				var aerr error
				if guard(o, "Meta.AddEncrypted (large value)", func() {
					if asStr {
						aerr = m.AddEncrypted("k", string(plain), p.Key)
					} else {
						aerr = m.AddEncrypted("k", plain, p.Key)
					}
				}) {
					return
				}
				o.Eval("C19")
				e.sig("sizes", fmt.Sprint(k, d, aerr == nil))
				if aerr != nil {
					continue
				}
				var got []byte
				var gerr error
				if asStr {
					var gs string
					gs, gerr = m.GetEncryptedString("k", p.Key)
					got = []byte(gs)
				} else {
					got, gerr = m.GetEncryptedBytes("k", p.Key)
				}
				if gerr != nil || !bytes.Equal(got, plain) {
					o.Violate("C19", "roundtrip", fmt.Sprintf("a value of %d bytes (2^%d - %d) was accepted by AddEncrypted and does not read back with the same key (error: %v)", n, k, d, gerr != nil), map[string]string{"size": "near-power-of-two"})
					return
				}
			}
		}
	case "overlap":
		// two encryptions that overlap in time: while the first draws its nonce (inside the call to
		// the randomness source) a second value is encrypted into another Meta, as a concurrent
		// caller's would be; afterwards each Meta gives back its OWN value. The second value has
		// the same length, is shorter, or is longer.
		for _, asStr := range []bool{true, false} {
			for _, shape := range []string{"same", "shorter", "longer"} {
				other := make([]byte, len(p.Plain))
				for i := range other {
					other[i] = "ZYXWVUTSRQ"[(i+s.N)%10]
				}
				switch shape {
				case "shorter":
					other = other[:len(other)/2]
				case "longer":
					other = append(other, []byte("-and-some-more-to-follow")...)
				}
				val := func(b []byte) any {
					if asStr {
						return string(b)
					}
					return append([]byte{}, b...)
				}
				m1, m2 := meta.NewMeta(), meta.NewMeta()
				var err1, err2 error
				old := rand.Reader
				hook := &hookRand{inner: old}
				hook.before = func() {
					rand.Reader = old
					err2 = m2.AddEncrypted("k", val(other), p.Key)
				}
				rand.Reader = hook
				panicked := guard(o, "Meta.AddEncrypted overlapping another", func() { err1 = m1.AddEncrypted("k", val(p.Plain), p.Key) })
				rand.Reader = old
				if panicked {
					return
				}
				o.Fault("overlapping_encryption")
				e.sig("overlap", fmt.Sprint(asStr, shape, hook.fired))
				if err1 != nil || err2 != nil || !hook.fired {
					continue
				}
				o.Eval("C19")
				for _, c := range []struct {
					m    *meta.Meta
					want []byte
					who  string
				}{{m1, p.Plain, "first"}, {m2, other, "second"}} {
					var got []byte
					var gerr error
					if asStr {
						var gs string
						gs, gerr = c.m.GetEncryptedString("k", p.Key)
						got = []byte(gs)
					} else {
						got, gerr = c.m.GetEncryptedBytes("k", p.Key)
					}
					if gerr != nil || !bytes.Equal(got, c.want) {
						o.Violate("C19", "roundtrip", fmt.Sprintf("of two encryptions overlapping in time (string=%v, the second value %s) the %s does not read back as the value that was added (error: %v)", asStr, shape, c.who, gerr != nil), map[string]string{"overlap": shape})
						return
					}
				}
			}
		}
	case "kind":
		// the stored value replaced by something of ANOTHER KIND under the same key (a plain string,
		// a number, a list ...): reading it as an encrypted value fails, through both getters, for
		// the right key and for any other
		subs := []struct {
			what string
			v    any
		}{{"a plain string", "forged value"}, {"the plaintext as a plain string", string(p.Plain) + "."}, {"an integer", int64(7)}, {"a boolean", true}, {"a list", []any{"x"}}, {"a map", map[string]any{"k": "v"}}, {"a float", 1.5}}
		for _, sub := range subs {
			m := meta.NewMeta()
			if err := m.Add("k", sub.v); err != nil {
				continue
			}
			for _, k := range [][]byte{p.Key, bytes.Repeat([]byte{0x33}, 32), nil} {
				for _, view := range []interface {
					GetEncryptedString(string, []byte) (string, error)
					GetEncryptedBytes(string, []byte) ([]byte, error)
				}{m, m.ReadOnly()} {
					_, e1 := view.GetEncryptedString("k", k)
					_, e2 := view.GetEncryptedBytes("k", k)
					o.Fault("stored_kind_changed")
					e.sig("kind:"+sub.what, fmt.Sprint(e1 != nil, e2 != nil))
					if e1 == nil || e2 == nil {
						o.Violate("C19", "tamper-accepted", fmt.Sprintf("the stored value replaced by %s is returned as decrypted data (string getter error: %v, bytes getter error: %v)", sub.what, e1 != nil, e2 != nil), map[string]string{"where": "kind"})
						return
					}
				}
			}
		}
	case "view":
		// ONE read-only view held across reads (of a Meta, and of a token): a good read first, then
		// every bad key; what the first read learnt must not answer for the later ones
		views := map[string]meta.ReadOnly{"Meta.ReadOnly()": e.withStored(e.stored).ReadOnly()}
		if tk, _, _, ok := e.buildToken("v"); ok {
			views["token.Meta()"] = metaOf(tk)
		}
		names := []string{"Meta.ReadOnly()", "token.Meta()"}
		for _, name := range names {
			view, ok := views[name]
			if !ok {
				continue
			}
			got, err := e.read(view, "k", p.Key)
			if err != nil || !bytes.Equal(got, p.Plain) {
				o.Violate("C19", "roundtrip", fmt.Sprintf("value read through a held %s view: err=%v", name, err), nil)
				continue
			}
			// looking at the metadata (printing it for a log line, iterating, comparing, cloning)
			// leaves the stored value as it is: same bytes, still readable with the key
			before, _ := view.GetBytes("k")
			keep := append([]byte{}, before...)
			guard(o, "Meta.String / Iter / Equals / WriteableClone", func() {
				_ = view.String()
				for range view.Iter() {
				}
				_ = view.Equals(view.WriteableClone().ReadOnly())
				_ = view.WriteableClone().String()
			})
			o.Eval("C19")
			after, _ := view.GetBytes("k")
			if back, rerr := e.read(view, "k", p.Key); !bytes.Equal(after, keep) || rerr != nil || !bytes.Equal(back, p.Plain) {
				o.Violate("C19", "failed-read-changed-stored", fmt.Sprintf("after the metadata of a %s view was printed, iterated, compared and cloned, the encrypted value is no longer what it was (stored bytes equal: %v, readable: %v)", name, bytes.Equal(after, keep), rerr == nil), map[string]string{"after": "print"})
				continue
			}
			flipped := append([]byte{}, p.Key...)
			flipped[s.N%32] ^= 1 << uint(s.N%8)
			other := bytes.Repeat([]byte{0x5a}, 32)
			bad := map[string][]byte{"another key": other, "a key differing in one bit": flipped, "a nil key": nil, "an empty key": {}, "a 16-byte key": p.Key[:16], "a 33-byte key": append(append([]byte{}, p.Key...), 1), "an all-zero key": make([]byte, 32)}
			for _, what := range []string{"another key", "a key differing in one bit", "a nil key", "an empty key", "a 16-byte key", "a 33-byte key", "an all-zero key"} {
				for _, asStr := range []bool{true, false} {
					var rerr error
					if asStr {
						_, rerr = view.GetEncryptedString("k", bad[what])
					} else {
						_, rerr = view.GetEncryptedBytes("k", bad[what])
					}
					o.Fault("wrong_key")
					e.sig("view:"+what, fmt.Sprint(rerr != nil))
					if rerr == nil {
						clause := "wrong-key-accepted"
						if what != "another key" && what != "a key differing in one bit" {
							clause = "bad-key-accepted"
						}
						o.Violate("C19", clause, fmt.Sprintf("after a good read through the same %s view, a read with %s returns data", name, what), map[string]string{"view": "held"})
						break
					}
				}
			}
		}
	case "retain":
		// values that were read stay what they were while OTHER values are decrypted (other
		// entry, other Meta, other key, other length; both APIs): a returned slice is the
		// caller's, not a scratch buffer
		m := e.withStored(e.stored)
		otherKey := append([]byte{}, p.Key...)
		otherKey[s.N%32] ^= byte(1 + s.N%255)
		otherKey[0] |= 1
		other := bytes.Repeat([]byte{byte('A' + s.N%26), byte('a' + (s.N/26)%26)}, 1+(len(p.Plain)+s.N%40)/2)
		m2 := meta.NewMeta()
		if err := m2.AddEncrypted("o", other, otherKey); err != nil {
			return
		}
		if err := m.AddEncrypted("o2", string(other[:len(other)/2]), p.Key); err != nil {
			return
		}
		type heldVal struct {
			what string
			got  []byte
			want []byte
		}
		var held []heldVal
		hold := func(what string, got []byte, err error, want []byte) {
			if err != nil {
				o.Violate("C19", "roundtrip", what+": "+err.Error(), nil)
				return
			}
			held = append(held, heldVal{what, got, append([]byte{}, want...)})
		}
		verify := func(after string) {
			for _, h := range held {
				e.sig("retain", after)
				if !bytes.Equal(h.got, h.want) {
					o.Violate("C19", "returned-value-changed", fmt.Sprintf("the value returned by %s no longer equals the plaintext after %s", h.what, after), map[string]string{"after": after})
					return
				}
			}
		}
		b1, err := m.GetEncryptedBytes("k", p.Key)
		hold("GetEncryptedBytes(k)", b1, err, p.Plain)
		b2, err := m2.GetEncryptedBytes("o", otherKey)
		hold("GetEncryptedBytes(o) of another Meta under another key", b2, err, other)
		verify("a read of another Meta")
		s3, err := m.GetEncryptedString("o2", p.Key)
		hold("GetEncryptedString(o2)", []byte(s3), err, other[:len(other)/2])
		verify("a string read of another entry")
		b4, err := m.GetEncryptedBytes("o2", p.Key)
		hold("GetEncryptedBytes(o2)", b4, err, other[:len(other)/2])
		verify("a bytes read of another entry")
		_, _ = m2.GetEncryptedBytes("o", p.Key) // fails: wrong key
		verify("a failed read")
		b5, err := m.GetEncryptedBytes("k", p.Key)
		hold("GetEncryptedBytes(k) again", b5, err, p.Plain)
		verify("a second read of the same entry")
		if len(b1) > 0 && len(b5) > 0 && &b1[0] == &b5[0] {
			o.Violate("C19", "returned-value-changed", "two reads of the same entry return the same backing array", map[string]string{"after": "aliasing"})
		}
	case "roundtrip":
		tk, sealed, js, ok := e.buildToken("r")
		if !ok {
			return
		}
		got, err := e.read(metaOf(tk), "k", p.Key)
		e.sig("none", "token")
		if err != nil || !bytes.Equal(got, p.Plain) {
			o.Violate("C19", "roundtrip", "value read from the constructed token differs", nil)
		}
		if dec, _, derr := token.FromSealed(sealed); derr == nil {
			got, err := e.read(metaOf(dec), "k", p.Key)
			e.sig("none", "sealed-cbor")
			if err != nil || !bytes.Equal(got, p.Plain) {
				o.Violate("C19", "roundtrip", fmt.Sprintf("value read after seal/unseal (DAG-CBOR): err=%v", err), nil)
			}
		} else {
			o.Violate("C19", "roundtrip", fmt.Sprintf("token with encrypted metadata cannot be unsealed: %v", derr), nil)
		}
		if js != nil {
			if dec, derr := token.FromDagJson(js); derr == nil {
				got, err := e.read(metaOf(dec), "k", p.Key)
				e.sig("none", "sealed-json")
				if err != nil || !bytes.Equal(got, p.Plain) {
					o.Violate("C19", "roundtrip", fmt.Sprintf("value read after DAG-JSON round trip: err=%v", err), nil)
				}
			} else {
				o.Violate("C19", "roundtrip", fmt.Sprintf("token with encrypted metadata does not survive DAG-JSON: %v", derr), nil)
			}
		}
	case "fresh":
		// the same value under the same key, repeatedly: in one Meta, in separate Metas, in tokens
		seen := map[string]string{string(e.stored): "first"}
		check := func(where string, b []byte) {
			e.sig("none", "fresh:"+where)
			if prev, dup := seen[string(b)]; dup {
				o.Violate("C19", "nonce-reused", fmt.Sprintf("two encryptions of the same value under the same key are identical (%s and %s)", prev, where), nil)
			}
			for w, pr := range seen {
				_ = pr
				if len(w) >= 24 && len(b) >= 24 && w[:24] == string(b[:24]) {
					o.Violate("C19", "nonce-reused", "two encryptions share their 24-byte nonce", nil)
					break
				}
			}
			if len(b) >= 24 && bytes.Equal(b[:24], make([]byte, 24)) {
				o.Violate("C19", "nonce-reused", "all-zero nonce", nil)
			}
			seen[string(b)] = where
		}
		m := meta.NewMeta()
		reps := s.N
		if reps < 3 {
			reps = 3
		}
		for i := 0; i < reps; i++ {
			k := fmt.Sprintf("k%d", i)
			if err := m.AddEncrypted(k, e.val(), p.Key); err == nil {
				b, _ := m.GetBytes(k)
				check("same-meta-"+k, b)
			}
		}
		for i := 0; i < 2; i++ {
			tk, _, _, ok := e.buildToken(fmt.Sprintf("f%d", i))
			if ok {
				b, _ := metaOf(tk).GetBytes("k")
				check(fmt.Sprintf("token-%d", i), b)
			}
		}
		// ONE option value applied to several tokens (options built once, one token per audience):
		// every token gets its own encryption
		iss, other := e.c.ent(0), e.c.ent(1)
		if p.Kind == "inv" {
			opt := invocation.WithEncryptedMetaBytes("k", p.Plain, p.Key)
			if p.AsStr {
				opt = invocation.WithEncryptedMetaString("k", string(p.Plain), p.Key)
			}
			for i := 0; i < 3; i++ {
				if tk, err := invocation.New(iss.id, other.id, command.MustParse("/a"), nil, opt, invocation.WithNonce([]byte(fmt.Sprintf("nonce-nonce-%02d", i)))); err == nil {
					b, _ := tk.Meta().GetBytes("k")
					check(fmt.Sprintf("shared-option-token-%d", i), b)
				}
			}
		} else {
			opt := delegation.WithEncryptedMetaBytes("k", p.Plain, p.Key)
			if p.AsStr {
				opt = delegation.WithEncryptedMetaString("k", string(p.Plain), p.Key)
			}
			for i := 0; i < 3; i++ {
				var tk *delegation.Token
				var err error
				if i == 2 {
					tk, err = delegation.Root(iss.id, other.id, command.MustParse("/a"), nil, opt)
				} else {
					tk, err = delegation.New(iss.id, other.id, command.MustParse("/a"), nil, delegation.WithSubject(iss.id), opt)
				}
				if err == nil {
					b, _ := tk.Meta().GetBytes("k")
					check(fmt.Sprintf("shared-option-token-%d", i), b)
				}
			}
		}
	case "flip_all":
		hi := s.Hi
		if hi < 0 || hi >= len(e.stored)*8 {
			hi = len(e.stored)*8 - 1
		}
		step := s.Step
		if step < 1 {
			step = 1
		}
		for bit := s.Lo; bit <= hi; bit += step {
			m := e.withStored(flipBit(e.stored, bit))
			got, err := e.read(m, "k", p.Key)
			o.Fault("stored_bitflip")
			where := "ciphertext"
			if bit < 24*8 {
				where = "nonce"
			} else if bit < 40*8 {
				where = "mac"
			}
			e.sig("flip:"+where, fmt.Sprint(err != nil))
			if err == nil {
				o.Violate("C19", "tamper-accepted", fmt.Sprintf("stored value with bit %d flipped decrypts without an error (%d bytes returned)", bit, len(got)), map[string]string{"where": where})
			}
		}
	case "trunc_all":
		hi := s.Hi
		if hi < 0 || hi >= len(e.stored) {
			hi = len(e.stored) - 1
		}
		for n := s.Lo; n <= hi; n++ {
			m := e.withStored(append([]byte{}, e.stored[:n]...))
			var err error
			if guard(o, "GetEncrypted(truncated)", func() { _, err = e.read(m, "k", p.Key) }) {
				continue
			}
			o.Fault("stored_truncated")
			e.sig("trunc", fmt.Sprint(err != nil))
			if err == nil {
				o.Violate("C19", "tamper-accepted", fmt.Sprintf("stored value truncated to %d of %d bytes decrypts without an error", n, len(e.stored)), nil)
			}
		}
	case "extend":
		for _, extra := range [][]byte{{0}, {0xff, 0xff}, e.stored} {
			m := e.withStored(append(append([]byte{}, e.stored...), extra...))
			_, err := e.read(m, "k", p.Key)
			o.Fault("stored_extended")
			e.sig("extend", fmt.Sprint(err != nil))
			if err == nil {
				o.Violate("C19", "tamper-accepted", "extended stored value decrypts without an error", nil)
			}
		}
	case "otherkey":
		keys := map[string][]byte{}
		rk := labelNonce(fmt.Sprint("key", s.N), 32)
		keys["random"] = rk
		ob := append([]byte{}, p.Key...)
		ob[s.N%32] ^= 1 << uint(s.N%8)
		keys["one-bit"] = ob
		for _, name := range []string{"one-bit", "random"} {
			k := keys[name]
			if bytes.Equal(k, p.Key) {
				continue
			}
			m := e.withStored(append([]byte{}, e.stored...))
			got, err := e.read(m, "k", k)
			o.Fault("wrong_key")
			e.sig("otherkey:"+name, fmt.Sprint(err != nil))
			if err == nil {
				o.Violate("C19", "wrong-key-accepted", fmt.Sprintf("reading with a different key (%s) returned %d bytes without an error", name, len(got)), nil)
			}
			// a refused read leaves everything as it was: the value still reads with the right key
			// (from the same object and from a clone of it) and the stored bytes are the same
			o.Eval("C19")
			after, gerr := m.GetBytes("k")
			if gerr != nil || !bytes.Equal(after, e.stored) {
				o.Violate("C19", "failed-read-changed-stored", fmt.Sprintf("after a read with a different key (%s) was refused, the stored value is no longer what it was", name), map[string]string{"after": "wrong-key"})
				return
			}
			for _, who := range []string{"same object", "clone"} {
				var rd interface {
					GetEncryptedString(string, []byte) (string, error)
					GetEncryptedBytes(string, []byte) ([]byte, error)
				} = m
				if who == "clone" {
					rd = m.ReadOnly().WriteableClone()
				}
				if back, rerr := e.read(rd, "k", p.Key); rerr != nil || !bytes.Equal(back, p.Plain) {
					o.Violate("C19", "roundtrip", fmt.Sprintf("after a read with a different key (%s) was refused, the right key no longer reads the value back (%s; error: %v)", name, who, rerr != nil), map[string]string{"after": "wrong-key"})
					return
				}
			}
		}
	case "badkey":
		try := func(name string, k []byte) {
			m := meta.NewMeta()
			var err error
			if guard(o, "AddEncrypted(bad key)", func() { err = m.AddEncrypted("k", e.val(), k) }) {
				return
			}
			e.sig("badkey:"+name, fmt.Sprint(err != nil))
			if err == nil {
				o.Violate("C19", "bad-key-accepted", "AddEncrypted accepted a key that is "+name, map[string]string{"key": name})
			}
			var rerr error
			if guard(o, "GetEncrypted(bad key)", func() { _, rerr = e.read(e.withStored(e.stored), "k", k) }) {
				return
			}
			if rerr == nil {
				o.Violate("C19", "bad-key-accepted", "GetEncrypted accepted a key that is "+name, map[string]string{"key": name})
			}
		}
		// the same through the option helpers of the plan's token type: the constructor must refuse
		tryOpt := func(name string, k []byte) {
			iss, other := e.c.ent(0), e.c.ent(1)
			var err error
			if guard(o, "constructor with an encrypted-metadata option (bad key)", func() {
				if p.Kind == "inv" {
					opt := invocation.WithEncryptedMetaBytes("k", p.Plain, k)
					if p.AsStr {
						opt = invocation.WithEncryptedMetaString("k", string(p.Plain), k)
					}
					_, err = invocation.New(iss.id, other.id, command.MustParse("/a"), nil, opt)
				} else {
					opt := delegation.WithEncryptedMetaBytes("k", p.Plain, k)
					if p.AsStr {
						opt = delegation.WithEncryptedMetaString("k", string(p.Plain), k)
					}
					_, err = delegation.Root(iss.id, other.id, command.MustParse("/a"), nil, opt)
				}
			}) {
				return
			}
			e.sig("badkey-option:"+name, fmt.Sprint(err != nil))
			if err == nil {
				o.Violate("C19", "bad-key-accepted", "a token constructor accepted an encrypted-metadata option whose key is "+name, map[string]string{"key": name, "where": "option"})
			}
		}
		for _, bk := range []struct {
			name string
			k    []byte
		}{{"nil", nil}, {"all-zero", make([]byte, 32)}, {"empty", []byte{}}, {"31 bytes long", labelNonce("bad", 31)}, {"33 bytes long", labelNonce("bad", 33)}, {"64 bytes long", labelNonce("bad", 64)}} {
			tryOpt(bk.name, bk.k)
		}
		// ... also when the stored value IS a well-formed box made under that very key (anyone can
		// make one with the public primitive and put it into a token): the all-zero key is refused
		// on the read side whatever it is held against
		{
			var zk [32]byte
			var nonce [24]byte
			copy(nonce[:], labelNonce("zero-key-box", 24))
			forged := secretbox.Seal(nonce[:], []byte("attacker chosen"), &nonce, &zk)
			m := e.withStored(forged)
			for _, asStr := range []bool{true, false} {
				var rerr error
				var got []byte
				if guard(o, "GetEncrypted(all-zero key, box made under it)", func() {
					if asStr {
						var gs string
						gs, rerr = m.GetEncryptedString("k", zk[:])
						got = []byte(gs)
					} else {
						got, rerr = m.GetEncryptedBytes("k", zk[:])
					}
				}) {
					return
				}
				o.Eval("C19")
				e.sig("badkey:zero-key-box", fmt.Sprint(rerr != nil))
				if rerr == nil {
					o.Violate("C19", "bad-key-accepted", fmt.Sprintf("GetEncrypted accepted the all-zero key for a stored box made under it and returned %d bytes", len(got)), map[string]string{"key": "all-zero", "where": "forged box"})
				}
			}
		}
		try("nil", nil)
		try("all-zero", make([]byte, 32))
		for n := 0; n <= 64; n++ {
			if n != 32 {
				try(fmt.Sprintf("%d bytes long", n), labelNonce("bad", n))
			}
		}
	case "confidential":
		if len(p.Plain) < 16 {
			return
		}
		_, sealed, js, ok := e.buildToken("c")
		if !ok {
			return
		}
		e.sig("none", "confidential")
		for name, hay := range map[string][]byte{"the stored value": e.stored, "the sealed DAG-CBOR token": sealed, "the DAG-JSON token": js} {
			if bytes.Contains(hay, p.Plain) {
				o.Violate("C19", "plaintext-visible", "the plaintext occurs in "+name, nil)
			}
		}
	}
}

func genSecret(r *Rand, g GenCfg) Plan {
	p := &SecretPlan{Cast: []Principal{{"ed25519", r.Intn(8)}, {"ed25519", r.Intn(8)}}, Kind: Pick(r, []string{"dlg", "inv"}), AsStr: r.Chance(0.5)}
	p.Key = r.Bytes(32)
	p.Key[r.Intn(32)] |= 1
	n := Pick(r, []int{0, 1, 2, 15, 16, 17, 31, 32, 33, 100, 1000})
	if r.Chance(0.06) {
		// long values: several internal blocks / chunks of whatever size
		n = Pick(r, []int{4097, 16385, 40000, 70000})
	}
	if r.Chance(0.3) {
		n = r.Range(0, 300)
	}
	if p.AsStr {
		b := make([]byte, n)
		for i := range b {
			b[i] = "abcdefghijklmnopqrstuvwxyz 0123456789"[r.Intn(37)]
		}
		p.Plain = b
	} else {
		p.Plain = r.Bytes(n)
	}
	p.Steps = []SecStep{{Op: "roundtrip"}, {Op: "fresh", N: Pick(r, []int{3, 20, 70, 300})}, {Op: "confidential"}}
	if n <= 2000 {
		p.Steps = append(p.Steps, SecStep{Op: "flip_all", Hi: -1}, SecStep{Op: "trunc_all", Hi: -1})
	} else {
		lo := r.Intn(n * 8)
		// every region of a long ciphertext is visited: ~1500 flips spread evenly (odd stride), plus dense ranges
		p.Steps = append(p.Steps, SecStep{Op: "flip_all", Hi: -1, Step: (n * 8 / 1500) | 1}, SecStep{Op: "flip_all", Lo: lo, Hi: lo + 300}, SecStep{Op: "flip_all", Hi: 40*8 + 64},
			SecStep{Op: "flip_all", Lo: (n+40)*8 - 300, Hi: -1}, SecStep{Op: "trunc_all", Hi: 100})
	}
	p.Steps = append(p.Steps, SecStep{Op: "retain", N: r.Intn(1 << 16)})
	p.Steps = append(p.Steps, SecStep{Op: "rngfault"})
	p.Steps = append(p.Steps, SecStep{Op: "overlap", N: r.Intn(10)})
	if g.Index%8 == 3 {
		p.Steps = append(p.Steps, SecStep{Op: "sizes", N: r.Intn(26)})
	}
	p.Steps = append(p.Steps, SecStep{Op: "view", N: r.Intn(256)})
	p.Steps = append(p.Steps, SecStep{Op: "kind"})
	p.Steps = append(p.Steps, SecStep{Op: "extend"})
	for i := 0; i < 4; i++ {
		p.Steps = append(p.Steps, SecStep{Op: "otherkey", N: r.Intn(256)})
	}
	p.Steps = append(p.Steps, SecStep{Op: "badkey"})
	return p
}

func init() {
	register(&ScenarioDef{
		Name:  "secret",
		Props: []string{"C19"},
		Gen:   genSecret,
		Exec:  execSecret,
		Decode: func(b []byte) (Plan, error) {
			var p SecretPlan
			if err := json.Unmarshal(b, &p); err != nil {
				return nil, err
			}
			return &p, nil
		},
	})
}
