package sim

import (
	"bytes"
	"crypto/sha256"
	"crypto/sha512"
	"encoding/json"
	"fmt"
	"io"
	"sort"
	"strings"
	"testing"
	"testing/synctest"

	"runtime/metrics"

	"github.com/ucan-wg/go-ucan/pkg/container"
	"github.com/ucan-wg/go-ucan/token"
	"github.com/ucan-wg/go-ucan/token/delegation"
)

// The `container` scenario: a set of sealed tokens goes through one of the
// four container formats (bytes or stream writer), the simulated transport
// re-orders the entries and may damage one of them, and the other side reads
// it back (bytes or stream reader). Decides C17.

type CStep struct {
	Op      string `json:"op"` // roundtrip | matrix | corrupt
	Format  string `json:"format,omitempty"`
	WStream bool   `json:"wstream,omitempty"`
	RStream bool   `json:"rstream,omitempty"`
	Chunks  []int  `json:"chunks,omitempty"`
	Perm    []int  `json:"perm,omitempty"`
	Fault   string `json:"fault,omitempty"`
	Entry   int    `json:"entry,omitempty"`
	Pos     int    `json:"pos,omitempty"`
}

type ContainerPlan struct {
	Cast     []Principal `json:"cast"`
	Tokens   []TokSpec   `json:"tokens"`
	AddOrder []int       `json:"add_order,omitempty"`
	// Reuse: one Writer serves every write of the run (filled in two halves with a write in
	// between, some tokens added twice); otherwise each write builds its own
	Reuse bool    `json:"reuse_writer,omitempty"`
	Steps []CStep `json:"steps"`
}

func (p *ContainerPlan) Len() int { return len(p.Steps) }
func (p *ContainerPlan) Keep(keep []bool) Plan {
	q := *p
	q.Steps = nil
	for i, s := range p.Steps {
		if keep[i] {
			q.Steps = append(q.Steps, s)
		}
	}
	return &q
}
func (p *ContainerPlan) clone() *ContainerPlan {
	b, _ := json.Marshal(p)
	var q ContainerPlan
	json.Unmarshal(b, &q)
	return &q
}
func (p *ContainerPlan) Summary() map[string]any {
	var ops []string
	for _, s := range p.Steps {
		ops = append(ops, strings.TrimSuffix(s.Op+":"+s.Format+":"+s.Fault, ":"))
	}
	b, _ := json.Marshal(p)
	var full any
	if len(b) < 5000 {
		json.Unmarshal(b, &full)
	}
	return map[string]any{"scenario": "container", "tokens": len(p.Tokens), "ops": ops, "plan": full}
}
func (p *ContainerPlan) Simpler() []Plan {
	var out []Plan
	mut := func(f func(q *ContainerPlan) bool) {
		q := p.clone()
		if f(q) {
			out = append(out, q)
		}
	}
	if len(p.Tokens) > 0 {
		for j := range p.Tokens {
			j := j
			mut(func(q *ContainerPlan) bool {
				q.Tokens = append(q.Tokens[:j:j], q.Tokens[j+1:]...)
				q.AddOrder = nil
				return true
			})
		}
	}
	for i, s := range p.Steps {
		i := i
		if s.Op == "matrix" {
			for _, f := range containerAPIs() {
				for _, ws := range []bool{false, true} {
					for _, rs := range []bool{false, true} {
						f, ws, rs := f, ws, rs
						mut(func(q *ContainerPlan) bool {
							q.Steps[i] = CStep{Op: "roundtrip", Format: f, WStream: ws, RStream: rs}
							return true
						})
					}
				}
			}
		}
		if len(s.Chunks) > 0 || len(s.Perm) > 0 {
			mut(func(q *ContainerPlan) bool { q.Steps[i].Chunks, q.Steps[i].Perm = nil, nil; return true })
		}
		if s.WStream || s.RStream {
			mut(func(q *ContainerPlan) bool { q.Steps[i].WStream, q.Steps[i].RStream = false, false; return true })
		}
		if s.Pos > 0 {
			mut(func(q *ContainerPlan) bool { q.Steps[i].Pos /= 2; return true })
		}
	}
	for i := range p.Cast {
		if p.Cast[i].Alg != "ed25519" {
			i := i
			mut(func(q *ContainerPlan) bool { q.Cast[i] = Principal{"ed25519", i % poolSize["ed25519"]}; return true })
		}
	}
	return out
}

type containerExec struct {
	t      *testing.T
	o      *Outcome
	p      *ContainerPlan
	cast   cast
	sealed [][]byte
	ledger map[string]string // cid hex -> content
	header []byte            // the CAR header the writer emits
	wr     container.Writer  // the run's one Writer (Reuse)
	held   []heldOut         // every byte slice a writer has returned, with a private copy
}

type heldOut struct {
	format   string
	got, dup []byte
}

// checkHeld: what a writer returned belongs to the caller; later writes (same or another
// Writer, any format) must leave it alone.
func (e *containerExec) checkHeld(after string) {
	for _, h := range e.held {
		e.o.Eval("C17")
		if !bytes.Equal(h.got, h.dup) {
			e.o.Violate("C17", "written-bytes-changed", fmt.Sprintf("the %s container a writer returned earlier was changed by a later %s", h.format, after), map[string]string{"format": h.format})
			e.held = nil
			return
		}
	}
}

func execContainer(t *testing.T, pl Plan, seed uint64, o *Outcome) {
	p := pl.(*ContainerPlan)
	e := &containerExec{t: t, o: o, p: p, ledger: map[string]string{}}
	for _, c := range p.Cast {
		e.cast = append(e.cast, normPrincipal(c))
	}
	if len(e.cast) == 0 {
		e.cast = cast{{"ed25519", 0}}
	}
	synctest.Test(t, func(t *testing.T) {
		defer func() {
			if r := recover(); r != nil {
				o.Harness(fmt.Sprintf("panic in container executor: %v", r))
			}
		}()
		for i, ts := range p.Tokens {
			obj, err := buildTok(e.cast, ts)
			if err != nil || obj == nil {
				o.Logf("token %d: constructor refused", i)
				continue
			}
			var b []byte
			if guard(o, "ToSealed", func() { b, _, err = obj.ToSealed(e.cast.ent(ts.iss()).priv) }) || err != nil {
				o.Logf("token %d: cannot be sealed", i)
				continue
			}
			// only tokens that unseal can be expected back (unsealable ones are C07's business)
			if _, _, derr := tokenFromSealedQuiet(b); derr != nil {
				o.Probe("token_not_unsealable")
				continue
			}
			e.sealed = append(e.sealed, b)
			e.ledger[cidHex(harnessCID(b))] = recOf(obj).Content()
		}
		o.Logf("container world: %d tokens", len(e.sealed))
		for i := range p.Steps {
			e.step(&p.Steps[i])
			if o.HarnessErr != "" {
				return
			}
		}
	})
}

func (e *containerExec) write(format string, stream bool) ([]byte, error) {
	w := container.NewWriter()
	order := applyPerm(e.sealed, e.p.AddOrder)
	if e.p.Reuse {
		if e.wr == nil {
			// first use: half of the tokens, a write of every format, then the rest and a few again
			e.wr = container.NewWriter()
			for _, b := range order[:len(order)/2] {
				e.wr.AddSealed(mustCID(harnessCID(b)), b)
			}
			_, _ = e.wr.ToCbor()
			_, _ = e.wr.ToCar()
			_, _ = e.wr.ToCborBase64()
			_, _ = e.wr.ToCarBase64()
			for _, b := range order[len(order)/2:] {
				e.wr.AddSealed(mustCID(harnessCID(b)), b)
			}
			for i, b := range order {
				if i%3 == 0 {
					e.wr.AddSealed(mustCID(harnessCID(b)), b)
				}
			}
		}
		w = e.wr
	} else {
		for _, b := range order {
			w.AddSealed(mustCID(harnessCID(b)), b)
		}
	}
	var sink io.Writer
	var sw *simWriter
	if stream {
		sw = newSimWriter(WriteFault{})
		sink = sw
	}
	var out []byte
	var err error
	switch format {
	case "car":
		if stream {
			err = w.ToCarWriter(sink)
		} else {
			out, err = w.ToCar()
		}
	case "carb64":
		if stream {
			err = w.ToCarBase64Writer(sink)
		} else {
			out, err = w.ToCarBase64()
		}
	case "cborb64":
		if stream {
			err = w.ToCborBase64Writer(sink)
		} else {
			out, err = w.ToCborBase64()
		}
	default:
		if stream {
			err = w.ToCborWriter(sink)
		} else {
			out, err = w.ToCbor()
		}
	}
	if stream {
		out = sw.Bytes()
	}
	return out, err
}

func readContainerVariant(format string, stream bool, chunks []int, wire []byte) (container.Reader, error) {
	var r io.Reader
	if stream {
		r = newSimReader(wire, chunks, false, ReadFault{})
	}
	switch format {
	case "car":
		if stream {
			return container.FromCarReader(r)
		}
		return container.FromCar(wire)
	case "carb64":
		if stream {
			return container.FromCarBase64Reader(r)
		}
		return container.FromCarBase64(wire)
	case "cborb64":
		if stream {
			return container.FromCborBase64Reader(r)
		}
		return container.FromCborBase64(wire)
	default:
		if stream {
			return container.FromCborReader(r)
		}
		return container.FromCbor(wire)
	}
}

// cidMatches: does this binary CID hash to data? (known=false: a hash function
// the harness does not implement)
func cidMatches(c, data []byte) (match, known bool) {
	if len(c) == 34 && c[0] == 0x12 && c[1] == 0x20 {
		h := sha256.Sum256(data)
		return bytes.Equal(c[2:], h[:]), true
	}
	p := 0
	var vals [4]uint64
	for i := 0; i < 4; i++ {
		v, n, err := getUvarint(c[p:])
		if err != nil {
			return false, false
		}
		vals[i] = v
		p += n
	}
	digest := c[p:]
	if uint64(len(digest)) != vals[3] {
		return false, false
	}
	switch vals[2] {
	case 0x12:
		h := sha256.Sum256(data)
		if len(digest) == 0 || len(digest) > 32 {
			return false, false
		}
		// (a shorter digest is the truncated hash: a self-consistent, if weak, label)
		return bytes.Equal(digest, h[:len(digest)]), true
	case 0x13:
		h := sha512.Sum512(data)
		if len(digest) != 64 {
			return false, false
		}
		return bytes.Equal(digest, h[:]), true
	case 0x00:
		return bytes.Equal(digest, data), true
	}
	return false, false
}

type expectation struct {
	mustFail    bool
	mustSucceed bool
	want        []string // cid hex set, sorted, de-duplicated
	haveWant    bool
	mislabel    bool // a CAR block is stored under a CID that does not hash to its data
	why         string
}

// expect derives, from the delivered bytes alone (harness parser), what the
// reader is obliged to do.
func (e *containerExec) expect(format string, wire []byte, relaxedTrailing bool) expectation {
	bin := wire
	if strings.HasSuffix(format, "b64") {
		var err error
		if bin, err = unb64(wire); err != nil {
			return expectation{mustFail: true, why: "base64 text does not decode"}
		}
	}
	var entries [][]byte
	ex := expectation{}
	if strings.HasPrefix(format, "car") {
		f, err := parseCAR(bin)
		if err != nil {
			return expectation{mustFail: true, why: "CAR header section unreadable"}
		}
		if !f.Complete {
			if relaxedTrailing {
				// complete blocks followed by garbage: failing, or returning exactly the complete blocks, are both acceptable
				for _, b := range f.Blocks {
					entries = append(entries, b.Data)
				}
				ex.want, ex.haveWant = dedup(entrySet(entries)), true
				return ex
			}
			return expectation{mustFail: true, why: "CAR section truncated or malformed"}
		}
		headerIntact := bytes.Equal(f.Header, e.header)
		bad := ""
		unknown := false
		for i, b := range f.Blocks {
			m, known := cidMatches(b.CID, b.Data)
			if !bytes.Equal(b.CID, harnessCID(b.Data)) {
				// a label other than the canonical one: rejecting it is always
				// acceptable; accepting it only if it hashes to its data
				unknown = true
			}
			if !known {
				unknown = true
			} else if !m {
				bad = fmt.Sprintf("block %d stored under a CID that does not hash to its data", i)
				ex.mislabel = true
			}
			if _, ok := e.ledger[cidHex(harnessCID(b.Data))]; !ok {
				bad = fmt.Sprintf("block %d is not a sealed token of the ledger", i)
			}
			entries = append(entries, b.Data)
		}
		ex.want, ex.haveWant = dedup(entrySet(entries)), true
		switch {
		case bad != "":
			ex.mustFail, ex.why = true, bad
		case !headerIntact || unknown:
			// no obligation either way; a success must still be exact
		default:
			ex.mustSucceed = true
		}
		return ex
	}
	c, err := cbDecodeAll(bin)
	if err != nil {
		if relaxedTrailing {
			if c2, _, err2 := cbDecode(bin); err2 == nil {
				c = c2
			} else {
				return expectation{mustFail: true, why: "container is not well-formed CBOR"}
			}
		} else {
			return expectation{mustFail: true, why: "container is not well-formed CBOR"}
		}
	}
	if c.Major != 5 || len(c.Kids) != 2 || c.Kids[0].Major != 3 || string(c.Kids[0].Data) != "ctn-v1" || c.Kids[1].Major != 4 {
		return expectation{mustFail: true, why: "not a ctn-v1 map"}
	}
	bad := ""
	for i, k := range c.Kids[1].Kids {
		if k.Major != 2 {
			return expectation{mustFail: true, why: "entry is not a byte string"}
		}
		if _, ok := e.ledger[cidHex(harnessCID(k.Data))]; !ok {
			bad = fmt.Sprintf("entry %d is not a sealed token of the ledger", i)
		}
		entries = append(entries, k.Data)
	}
	ex.want, ex.haveWant = dedup(entrySet(entries)), true
	if bad != "" {
		ex.mustFail, ex.why = true, bad
	} else if !relaxedTrailing {
		ex.mustSucceed = true
	}
	return ex
}

// judge holds one read against its expectation.
func (e *containerExec) judge(s *CStep, rd container.Reader, rerr error, ex expectation, variant string) {
	o := e.o
	o.Eval("C17")
	attrs := map[string]string{"format": s.Format, "fault": s.Fault, "variant": variant}
	outcome := "error"
	if rerr == nil {
		outcome = "ok"
	}
	o.Sig("C17", s.Format, s.WStream, s.RStream, len(e.sealed), s.Fault, faultLocClass(s), outcome)
	if rerr != nil {
		if rd != nil {
			o.Violate("C17", "value-with-error", "container reader returned a Reader together with an error", attrs)
		}
		if ex.mustSucceed {
			clause := "faultfree-read-failed"
			if s.Fault != "" {
				clause = "intact-container-rejected"
			}
			o.Violate("C17", clause, fmt.Sprintf("%s (%s) of an intact container with %d entries failed: %v", s.Format, variant, len(ex.want), rerr), attrs)
		}
		return
	}
	got := map[string]string{}
	var keys []string
	for c, tk := range rd {
		k := cidHex(c.Bytes())
		keys = append(keys, k)
		got[k] = recOf(tk).Content()
	}
	sort.Strings(keys)
	if ex.mustFail {
		// tolerated only if every returned token still carries signed ledger content
		// under the hash of the bytes that were delivered (then it is C08's business)
		if !ex.mislabel && ex.haveWant && strings.Join(keys, ",") == strings.Join(ex.want, ",") && e.allSignedContent(got) {
			o.Probe("noncanonical_entry_accepted")
			return
		}
		o.Violate("C17", "corrupt-container-accepted", fmt.Sprintf("%s (%s) succeeded with %d tokens although %s", s.Format, variant, len(keys), ex.why), attrs)
		return
	}
	// C08 clause on container keys: a token that carries ledger content must be filed
	// under the harness's own hash of bytes that were delivered
	o.Eval("C08")
	if ex.haveWant {
		wantSet := map[string]bool{}
		for _, k := range ex.want {
			wantSet[k] = true
		}
		for _, k := range keys {
			if !wantSet[k] && e.allSignedContent(map[string]string{k: got[k]}) {
				o.Violate("C08", "container-key-not-cid", fmt.Sprintf("%s (%s) files a token under %s, which is not the CIDv1/dag-cbor/sha2-256 of any entry of the container", s.Format, variant, k[:16]), attrs)
				break
			}
		}
	}
	if ex.haveWant && strings.Join(keys, ",") != strings.Join(ex.want, ",") {
		o.Violate("C17", "wrong-set", fmt.Sprintf("%s (%s) returned %d tokens, the container holds %d distinct entries (partial or mislabelled set)", s.Format, variant, len(keys), len(ex.want)), attrs)
		return
	}
	for _, k := range keys {
		if want, ok := e.ledger[k]; ok && want != got[k] {
			o.Violate("C17", "token-content-differs", "token returned under CID "+k[:16]+" differs from the token that was added", attrs)
		}
	}
	e.accessorView(s, rd, attrs)
}

func (e *containerExec) allSignedContent(got map[string]string) bool {
	contents := map[string]bool{}
	for _, c := range e.ledger {
		contents[c] = true
	}
	for _, c := range got {
		if !contents[c] {
			return false
		}
	}
	return true
}

var allocSample = []metrics.Sample{{Name: "/gc/heap/allocs:bytes"}}

func allocNow() uint64 {
	metrics.Read(allocSample)
	return allocSample[0].Value.Uint64()
}

// accessorView checks the Reader's accessor API against its own map: every
// token retrievable under its CID, typed getters consistent, nothing else.
func (e *containerExec) accessorView(s *CStep, rd container.Reader, attrs map[string]string) {
	o := e.o
	nd, ni := 0, 0
	for c, tk := range rd {
		got, err := rd.GetToken(c)
		if err != nil || got != tk {
			o.Violate("C17", "accessor-view", "GetToken does not return the token stored under its CID", attrs)
		}
		d, derr := rd.GetDelegation(c)
		if _, isD := tk.(*delegation.Token); isD {
			nd++
			if derr != nil || token.Token(d) != tk {
				o.Violate("C17", "accessor-view", "GetDelegation does not return a stored delegation", attrs)
			}
		} else {
			ni++
			if derr == nil {
				o.Violate("C17", "accessor-view", "GetDelegation returned something for the CID of an invocation", attrs)
			}
		}
	}
	cd, ci := 0, 0
	for c, d := range rd.GetAllDelegations() {
		cd++
		if rd[c] != token.Token(d) {
			o.Violate("C17", "accessor-view", "GetAllDelegations yields a delegation that is not in the container under that CID", attrs)
		}
	}
	for c, v := range rd.GetAllInvocations() {
		ci++
		if rd[c] != token.Token(v) {
			o.Violate("C17", "accessor-view", "GetAllInvocations yields an invocation that is not in the container under that CID", attrs)
		}
	}
	if cd != nd || ci != ni {
		o.Violate("C17", "accessor-view", fmt.Sprintf("GetAll* yield %d delegations and %d invocations, the container holds %d and %d", cd, ci, nd, ni), attrs)
	}
	inv, ierr := rd.GetInvocation()
	switch {
	case ni == 0 && (ierr == nil || inv != nil):
		o.Violate("C17", "accessor-view", "GetInvocation returned an invocation from a container without one", attrs)
	case ni == 1 && (ierr != nil || inv == nil):
		o.Violate("C17", "accessor-view", "GetInvocation failed on a container with exactly one invocation", attrs)
	case ni > 1 && ierr == nil:
		o.Violate("C17", "accessor-view", "GetInvocation succeeded on a container with several invocations", attrs)
	}
	if _, err := rd.GetToken(missingCID("not-there")); err == nil {
		o.Violate("C17", "accessor-view", "GetToken returned a token for a CID that is not in the container", attrs)
	}
}

func faultLocClass(s *CStep) string {
	switch s.Fault {
	case "":
		return "-"
	case "data_flip", "data_flip_relabel":
		switch {
		case s.Pos < 16:
			return "head"
		case s.Pos < 16+64*8:
			return "sig"
		}
		return "payload"
	}
	return s.Fault
}

func tokenFromSealedQuiet(b []byte) (any, any, error) {
	var err error
	func() {
		defer func() {
			if r := recover(); r != nil {
				err = fmt.Errorf("panic: %v", r)
			}
		}()
		_, err = container.FromCbor(buildCborContainer("ctn-v1", [][]byte{b}))
	}()
	return nil, nil, err
}

func (e *containerExec) step(s *CStep) {
	switch s.Op {
	case "matrix":
		for _, f := range containerAPIs() {
			for _, ws := range []bool{false, true} {
				for _, rs := range []bool{false, true} {
					st := CStep{Op: "roundtrip", Format: f, WStream: ws, RStream: rs, Chunks: s.Chunks, Perm: s.Perm}
					e.one(&st)
				}
			}
		}
	default:
		e.one(s)
	}
}

func flipBit(b []byte, bit int) []byte {
	out := append([]byte{}, b...)
	if len(out) == 0 {
		return out
	}
	bit %= 8 * len(out)
	out[bit/8] ^= 1 << uint(bit%8)
	return out
}

func (e *containerExec) one(s *CStep) {
	o := e.o
	if !inList(containerAPIs(), s.Format) {
		s.Format = "cbor"
	}
	var raw []byte
	var err error
	if guard(o, "container.To:"+s.Format, func() { raw, err = e.write(s.Format, s.WStream) }) {
		return
	}
	variant := fmt.Sprintf("writer=%s reader=%s", map[bool]string{false: "bytes", true: "stream"}[s.WStream], map[bool]string{false: "bytes", true: "stream"}[s.RStream])
	if err == nil && !s.WStream {
		e.checkHeld("write of a " + s.Format + " container")
		if len(e.held) < 24 {
			e.held = append(e.held, heldOut{s.Format, raw, append([]byte{}, raw...)})
		}
		// a write of a DIFFERENT set in between (one token only), as another user of the package would do
		if len(e.sealed) > 0 {
			w2 := container.NewWriter()
			w2.AddSealed(mustCID(harnessCID(e.sealed[0])), e.sealed[0])
			_, _ = w2.ToCbor()
			_, _ = w2.ToCborBase64()
			_, _ = w2.ToCar()
			_, _ = w2.ToCarBase64()
			e.checkHeld("write of another container")
		}
	}
	if err != nil {
		o.Violate("C17", "write-failed", fmt.Sprintf("%s writer failed without a fault: %v", s.Format, err), map[string]string{"format": s.Format})
		return
	}
	isB64 := strings.HasSuffix(s.Format, "b64")
	isCar := strings.HasPrefix(s.Format, "car")
	bin := raw
	if isB64 {
		if bin, err = unb64(raw); err != nil {
			o.Violate("C17", "writer-output-unparseable", "base64 container output does not decode", map[string]string{"format": s.Format})
			return
		}
	}
	// normalise entry order
	var car *carFile
	var entries [][]byte
	if isCar {
		car, err = parseCAR(bin)
		if err != nil || !car.Complete {
			o.Violate("C17", "writer-output-unparseable", "CAR output not parseable", map[string]string{"format": s.Format})
			return
		}
		if e.header == nil {
			e.header = car.Header
		}
		car.sortBlocks(s.Perm)
	} else {
		entries, err = parseCborContainer(bin)
		if err != nil {
			o.Violate("C17", "writer-output-unparseable", "CBOR container output not parseable", map[string]string{"format": s.Format})
			return
		}
		entries = sortEntries(entries, s.Perm)
	}
	n := len(entries)
	if isCar {
		n = len(car.Blocks)
	}
	// apply the fault structurally
	relaxed := false
	textFlip := -1
	fault := s.Fault
	if n == 0 && fault != "" && fault != "trunc" && fault != "trailing" && fault != "text_flip" && fault != "edge_trunc" && fault != "edge_bad" && fault != "version_flip" && fault != "hostile_len" && fault != "bad_frame" {
		fault = "trunc"
	}
	idx := 0
	if n > 0 {
		idx = s.Entry % n
	}
	setData := func(d []byte, relabel bool) {
		if isCar {
			car.Blocks[idx].Data = d
			if relabel {
				car.Blocks[idx].CID = harnessCID(d)
			}
		} else {
			entries[idx] = d
		}
	}
	getData := func() []byte {
		if isCar {
			return car.Blocks[idx].Data
		}
		return entries[idx]
	}
	switch fault {
	case "":
	case "data_flip":
		setData(flipBit(getData(), s.Pos), false)
	case "data_flip_relabel":
		setData(flipBit(getData(), s.Pos), true)
	case "cid_flip":
		if isCar {
			car.Blocks[idx].CID = flipBit(car.Blocks[idx].CID, s.Pos)
		} else {
			setData(flipBit(getData(), s.Pos), false)
		}
	case "swap_cids":
		if isCar && n >= 2 {
			j := (idx + 1) % n
			car.Blocks[idx].CID, car.Blocks[j].CID = car.Blocks[j].CID, car.Blocks[idx].CID
		} else {
			setData(flipBit(getData(), s.Pos), false)
		}
	case "alias_cid":
		// one block filed under the label of ANOTHER block of the same file (its data untouched,
		// or garbage): two blocks, one label
		if isCar && n >= 2 {
			j := (idx + 1 + s.Pos%(n-1)) % n
			car.Blocks[idx].CID = append([]byte{}, car.Blocks[j].CID...)
			if s.Pos%3 == 0 {
				car.Blocks[idx].Data = []byte{0x82, 0x41, 0x00, 0xa0}
			}
			// the aliased block before or after the genuine one
			if s.Pos%2 == 0 && idx < j {
				car.Blocks[idx], car.Blocks[j] = car.Blocks[j], car.Blocks[idx]
			}
		} else {
			setData(flipBit(getData(), s.Pos), false)
		}
	case "weak_label":
		// every block under a self-consistent but WEAK label (sha2-256 truncated to one byte), read
		// once as it stands; then the same labels with, in one block, other bytes that hash to the
		// same label (the genuine token with its signature damaged): what an earlier read saw
		// under a label says nothing about what this file holds under it
		if isCar && n > 0 {
			weak := func(d []byte) []byte {
				h := sha256.Sum256(d)
				return []byte{0x01, 0x71, 0x12, 0x01, h[0]}
			}
			for i := range car.Blocks {
				car.Blocks[i].CID = weak(car.Blocks[i].Data)
			}
			prime := car.Bytes()
			if isB64 {
				prime = b64(prime)
			}
			pex := e.expect(s.Format, prime, false)
			var prd container.Reader
			var perr error
			if !guard(o, "container.From:"+s.Format, func() { prd, perr = readContainerVariant(s.Format, s.RStream, s.Chunks, prime) }) {
				ps := *s
				ps.Fault = "weak_label_genuine"
				e.judge(&ps, prd, perr, pex, variant)
			}
			d := car.Blocks[idx].Data
			want := weak(d)[4]
			for k := 0; k < 4096; k++ {
				// positions inside the signature bytes (after the 2-byte list / byte-string heads)
				m := flipBit(d, 24+(s.Pos+k)%(60*8))
				if h := sha256.Sum256(m); h[0] == want {
					car.Blocks[idx].Data = m
					break
				}
			}
		} else {
			setData(flipBit(getData(), s.Pos), false)
		}
	case "entry_tail":
		// an entry that is a valid sealed token FOLLOWED by more bytes (a stray zero, a null, a
		// second sealed token glued on), honestly labelled in a CAR: not a sealed token
		d := getData()
		var tail []byte
		switch s.Pos % 4 {
		case 0:
			tail = []byte{0x00}
		case 1:
			tail = []byte{0xf6}
		case 2:
			tail = append([]byte{}, e.sealed[(idx+1)%len(e.sealed)]...)
		default:
			tail = append([]byte{}, d...)
		}
		setData(append(append([]byte{}, d...), tail...), true)
	case "foreign_entry":
		d := cbArray(cbBytes([]byte{1, 2, 3}), cbMap(cbText("h"), cbBytes([]byte{0x34}), cbText("x"), cbInt(int64(s.Pos)))).Encode()
		if s.Pos%2 == 0 {
			d = cbMap(cbText("hello"), cbText("world")).Encode()
		}
		setData(d, true)
	case "dup_entry":
		if isCar {
			car.Blocks = append(car.Blocks, car.Blocks[idx])
		} else {
			entries = append(entries, entries[idx])
		}
	case "drop_byte":
		d := getData()
		k := s.Pos % len(d)
		setData(append(append([]byte{}, d[:k]...), d[k+1:]...), true)
	}
	var out []byte
	if isCar {
		out = car.Bytes()
	} else {
		out = buildCborContainer("ctn-v1", entries)
	}
	switch fault {
	case "len_flip":
		// flip a bit in a length prefix: the section / byte-string head of entry idx
		if isCar {
			out = flipBit2(out, car.Blocks[idx].Off*8+s.Pos%8, car, idx)
		} else if c, derr := cbDecodeAll(out); derr == nil && len(c.Kids) == 2 && idx < len(c.Kids[1].Kids) {
			off := c.Kids[1].Kids[idx].Off
			out = flipBit(out, off*8+s.Pos%16)
		}
	case "version_flip":
		if !isCar {
			out = flipBit(out, 8*2+s.Pos%(8*6)) // inside the "ctn-v1" key
		} else {
			out = flipBit(out, 8*1+s.Pos%(8*len(car.Header))) // inside the CAR header
		}
	case "bad_frame":
		// a hostile container frame: odd CAR headers, odd ctn-v1 shapes
		if isCar {
			hdrs := []*CB{
				cbMap(cbText("roots"), cbInt(1), cbText("version"), cbInt(1)),             // roots not a list
				cbMap(cbText("roots"), cbArray(), cbText("version"), cbText("1")),         // version not an int
				cbArray(cbInt(1), cbInt(2)),                                               // header not a map
				cbInt(1),                                                                  // header a scalar
				cbMap(cbText("roots"), cbArray(cbText("x")), cbText("version"), cbInt(1)), // root not a link
				cbMap(cbText("roots"), cbArray(), cbText("version"), cbInt(2)),            // other version
				cbMap(cbText("roots"), cbArray(), cbText("version"), cbUint(1<<63)),       // version beyond int64
				cbMap(cbText("version"), cbInt(1), cbText("x"), cbInt(1)),                 // no roots
				cbMap(cbText("roots"), cbNull(), cbText("version"), cbInt(1)),
				cbMap(cbText("roots"), cbArray(cbLink([]byte{1, 0x55, 0, 0})), cbText("version"), cbInt(1), cbText("extra"), cbInt(1)),
			}
			car.Header = hdrs[s.Pos%len(hdrs)].Encode()
			out = car.Bytes()
			if s.Pos%13 == 0 && n > 0 { // a block section shorter than any CID
				out = append(append([]byte{}, out[:car.Boundaries()[0]]...), 0x02, 0x01, 0x71)
			}
		} else {
			var entriesCB []*CB
			for _, en := range entries {
				entriesCB = append(entriesCB, cbBytes(en))
			}
			shapes := []*CB{
				cbMap(cbInt(1), cbArray(entriesCB...)),                                     // version key not a string
				cbMap(cbText("ctn-v1"), cbMap()),                                           // value not a list
				cbMap(cbText("ctn-v1"), cbArray(append([]*CB{cbInt(1)}, entriesCB...)...)), // an entry that is not bytes, first
				cbMap(cbText("ctn-v1"), cbArray(append(append([]*CB{}, entriesCB...), cbNull())...)),
				cbMap(cbText("ctn-v1"), cbArray(entriesCB...), cbText("ctn-v2"), cbArray()), // two version keys
				cbArray(entriesCB...), // not a map at all
				cbMap(cbText("ctn-v2"), cbArray(entriesCB...)),
				cbText("ctn-v1"),
				cbMap(cbText("ctn-v1"), cbArray(append(append([]*CB{}, entriesCB...), cbArray(cbBytes([]byte{1})))...)),
				cbMap(cbText("ctn-v1"), cbNull()),
			}
			out = shapes[s.Pos%len(shapes)].Encode()
		}
	case "hostile_len":
		// a length prefix that declares far more than is there
		huge := []uint64{1 << 25, 1<<25 + 1, 1 << 31, 1 << 40, 1<<63 - 1, 1<<64 - 1}[s.Pos%6]
		if s.Pos%3 == 1 {
			// or far LESS than is there: shorter than the CID that follows, a byte, nothing
			huge = []uint64{0, 1, 2, 3, 5, 17, 33, 34, 35, 36, 37, 38, 40, 64, 127, 128}[(s.Pos/3)%16]
		}
		if isCar {
			bs := car.Boundaries()
			off := bs[idx%len(bs)]
			if n == 0 || s.Pos%7 == 0 {
				off = 0 // the header section
			}
			var vb bytes.Buffer
			putUvarint(&vb, huge)
			_, ol, _ := getUvarint(out[off:])
			out = append(append(append([]byte{}, out[:off]...), vb.Bytes()...), out[off+ol:]...)
		} else if c, derr := cbDecodeAll(out); derr == nil && len(c.Kids) == 2 {
			it := c.Kids[1] // the list head, or an entry's byte-string head
			if n > 0 && s.Pos%2 == 0 {
				it = c.Kids[1].Kids[idx]
			}
			hl := 1 + minimalWidth(headArg(it))
			var head bytes.Buffer
			putHead(&head, it.Major, huge, 8)
			out = append(append(append([]byte{}, out[:it.Off]...), head.Bytes()...), out[it.Off+hl:]...)
		}
	case "trunc":
		if len(out) > 0 {
			out = out[:s.Pos%len(out)]
		}
	case "trailing":
		out = append(out, byte(s.Pos), byte(s.Pos>>8), 0x00)
		relaxed = true
	}
	wire := out
	if isB64 {
		wire = b64(out)
		if fault == "text_flip" && len(wire) > 0 {
			textFlip = s.Pos % (8 * len(wire))
			wire = flipBit(wire, textFlip)
		}
	} else if fault == "text_flip" {
		wire = flipBit(out, s.Pos)
	}
	if (fault == "edge_trunc" || fault == "edge_bad") && len(wire) > 0 {
		// damage right at a structural boundary of the delivered form: the end of the CAR header
		// or of a block (preferring one that falls on a base64 quantum), in the text of the base64
		// forms a few characters either side of the quantum that holds the boundary
		bounds := []int{len(out)}
		if isCar {
			bounds = car.Boundaries()
			var aligned []int
			for _, b := range bounds {
				if b%3 == 0 {
					aligned = append(aligned, b)
				}
			}
			if len(aligned) > 0 && s.Pos%4 != 0 {
				bounds = aligned
			}
		} else if c, err := cbDecodeAll(out); err == nil && c.Major == 5 && len(c.Kids) == 2 && c.Kids[1].Major == 4 {
			for _, k := range c.Kids[1].Kids {
				bounds = append(bounds, k.End)
			}
		}
		at := bounds[s.Entry%len(bounds)]
		if isB64 {
			at = at / 3 * 4
		}
		at += (s.Pos/4)%9 - 4
		if at < 0 {
			at = 0
		}
		if at >= len(wire) {
			at = len(wire) - 1
		}
		if fault == "edge_trunc" {
			wire = append([]byte{}, wire[:at]...)
		} else {
			wire = append([]byte{}, wire...)
			wire[at] = []byte{'!', '=', '-', '_', 0x00, ' ', '\n', 0xff}[(s.Pos/64)%8]
		}
	}
	if fault != "" {
		o.Fault("container_" + fault)
	}
	ex := e.expect(s.Format, wire, relaxed)
	if fault == "" && !ex.mustSucceed {
		o.Harness("fault-free container not recognised as intact by the harness parser: " + ex.why)
		return
	}
	var rd container.Reader
	var rerr error
	a0 := allocNow()
	keepWire := string(wire)
	if guard(o, "container.From:"+s.Format, func() { rd, rerr = readContainerVariant(s.Format, s.RStream, s.Chunks, wire) }) {
		return
	}
	if keepWire != string(wire) {
		// the bytes handed to a reader are the caller's: the byte-slice variant is interchangeable with
		// the stream variant only if the same bytes can be read again afterwards
		o.Violate("C17", "input-bytes-changed", fmt.Sprintf("the %s reader (%s) changed the byte slice it was given", s.Format, variant), map[string]string{"format": s.Format})
		wire = []byte(keepWire)
	}
	// cumulative allocation of one container read: a coarse bound that only a
	// declared-length-driven allocation can exceed (kept out of the event log)
	o.Eval("C09")
	if grown, limit := allocNow()-a0, uint64(256<<20)+8192*uint64(len(wire)); grown > limit {
		o.ViolateQuiet("C09", "memory", fmt.Sprintf("container.From:%s allocated %d MiB on %d bytes of input (bound %d MiB)", s.Format, grown>>20, len(wire), limit>>20), map[string]string{"entry": "container.From:" + s.Format})
	}
	o.Logf("%s %s fault=%s entry=%d pos=%d: err=%v n=%d mustFail=%v mustSucceed=%v", s.Format, variant, fault, idx, s.Pos, rerr != nil, len(rd), ex.mustFail, ex.mustSucceed)
	if ex.mustFail {
		o.Probe("container_expect_fail")
	} else if ex.mustSucceed {
		o.Probe("container_expect_success")
	} else {
		o.Probe("container_no_obligation")
	}
	e.judge(s, rd, rerr, ex, variant)
	// C08 clause on container keys: every key is the harness hash of an entry that was delivered
	if rerr == nil && ex.haveWant {
		o.Eval("C08")
		o.Sig("C08", "container-keys", s.Format, len(rd) > 0)
	}
	// after a read of damaged bytes (refused or not), the container as it was written still reads
	// back exactly: a failed read leaves nothing behind that the next one trips over
	if fault != "" && len(e.sealed) > 0 {
		var crd container.Reader
		var cerr error
		if guard(o, "container.From:"+s.Format+" (pristine, after a damaged read)", func() { crd, cerr = readContainerVariant(s.Format, s.RStream, s.Chunks, append([]byte{}, raw...)) }) {
			return
		}
		cs := *s
		cs.Fault = "after:" + s.Fault
		e.judge(&cs, crd, cerr, e.expect(s.Format, raw, false), variant+", pristine bytes after a damaged read")
	}
	// two stream reads overlapping in time, as two connections served at once: while this
	// container is being read (its source has delivered part of it and is asked for more),
	// another, one-token container of the same format is read from start to end; then the first
	// read carries on. Each read obeys what its own bytes oblige it to.
	if len(e.sealed) > 0 {
		w2 := container.NewWriter()
		w2.AddSealed(mustCID(harnessCID(e.sealed[0])), e.sealed[0])
		var other []byte
		switch s.Format {
		case "car":
			other, err = w2.ToCar()
		case "carb64":
			other, err = w2.ToCarBase64()
		case "cborb64":
			other, err = w2.ToCborBase64()
		default:
			other, err = w2.ToCbor()
		}
		if err != nil {
			return
		}
		chunks := s.Chunks
		if len(chunks) == 0 {
			chunks = []int{48}
		}
		var ird, ord container.Reader
		var ierr, oerr error
		nested := false
		src := &hookReader{inner: newSimReader(wire, chunks, false, ReadFault{}), at: 2 + s.Pos%3}
		src.hook = func() {
			nested = true
			ird, ierr = readContainerVariant(s.Format, true, []int{32}, other)
		}
		if guard(o, "container.From:"+s.Format+" (two reads interleaved)", func() { ord, oerr = readContainerFrom(s.Format, src) }) {
			return
		}
		if !nested {
			return // (the whole container fitted into the reads before the hook)
		}
		o.Fault("overlapping_reads")
		is := *s
		is.Fault = s.Fault + "+overlap"
		e.judge(&is, ord, oerr, ex, "reader=stream, interleaved with another read")
		o.Eval("C17")
		if ierr != nil || len(ird) != 1 || ird[mustCID(harnessCID(e.sealed[0]))] == nil {
			o.Violate("C17", "wrong-set", fmt.Sprintf("a one-token %s container read while another stream read was in progress: error=%v, %d tokens", s.Format, ierr != nil, len(ird)), map[string]string{"format": s.Format, "variant": "interleaved"})
		}
	}
}

// hookReader runs a callback once, just before Read call number at (1 = the first).
type hookReader struct {
	inner io.Reader
	at    int
	calls int
	hook  func()
}

func (h *hookReader) Read(p []byte) (int, error) {
	h.calls++
	if h.calls == h.at && h.hook != nil {
		f := h.hook
		h.hook = nil
		f()
	}
	return h.inner.Read(p)
}

func readContainerFrom(format string, r io.Reader) (container.Reader, error) {
	switch format {
	case "car":
		return container.FromCarReader(r)
	case "carb64":
		return container.FromCarBase64Reader(r)
	case "cborb64":
		return container.FromCborBase64Reader(r)
	}
	return container.FromCborReader(r)
}

// flipBit2 flips a bit inside the length varint of CAR block idx.
func flipBit2(out []byte, bit int, car *carFile, idx int) []byte {
	// recompute the block's offset in the re-assembled bytes
	bs := car.Boundaries()
	off := bs[idx] // boundary idx is the end of block idx-1 (or of the header) = start of block idx
	return flipBit(out, off*8+bit%8)
}

func genContainer(r *Rand, g GenCfg) Plan {
	p := &ContainerPlan{}
	p.Cast = genCast(r, g.Tier, 2, 5)
	n := []int{0, 1, 2, 2, 3, 4, 6, 8, 17, 23, 24, 25, 33, 70, 255, 256, 257}[r.Intn(17)]
	if g.Index%8 == 6 {
		// a size sweep: 90 same-shaped tokens whose sealed lengths are consecutive and pass over a
		// power of two (as section, i.e. with the 36-byte label, and as bare entry): whatever a
		// writer or reader does with small / aligned / buffer-sized sections, it does for every size
		centre := Pick(r, []int{512, 1024, 1024, 2048, 4096})
		p.Cast = nil
		for i := 0; i < 8; i++ {
			p.Cast = append(p.Cast, Principal{"ed25519", i})
		}
		for i := 0; i < 90; i++ {
			ts := uniformDlgSpec(i)
			ts.Dlg.Label = fmt.Sprintf("s%03d", i)
			pad := centre - 36 - 330 - 45 + i // (a uniform delegation seals to about 330 bytes)
			if pad < 0 {
				pad = 0
			}
			ts.Dlg.Meta = append(ts.Dlg.Meta, MetaSpec{Key: "pad", V: ptr(vStr(strings.Repeat("p", pad)))})
			p.Tokens = append(p.Tokens, ts)
		}
		p.Steps = []CStep{{Op: "matrix"}}
		for _, f := range containerAPIs() {
			p.Steps = append(p.Steps, CStep{Op: "roundtrip", Format: f, WStream: r.Chance(0.5), RStream: r.Chance(0.5), Chunks: []int{Pick(r, []int{1, 7, 512, 1024, 4096})}, Perm: r.Perm(90)})
		}
		return p
	}
	if n > 8 {
		// larger sets: cheap same-shaped Ed25519 delegations
		p.Cast = nil
		for i := 0; i < 8; i++ {
			p.Cast = append(p.Cast, Principal{"ed25519", i})
		}
		for i := 0; i < n; i++ {
			ts := uniformDlgSpec(i)
			ts.Dlg.Label = fmt.Sprintf("u%03d", i)
			if i%5 == 4 {
				ts = TokSpec{Kind: "inv", Inv: &InvSpec{Label: fmt.Sprintf("v%03d", i), Iss: i % 8, Sub: (i + 1) % 8, Aud: -1, Cmd: "/a", NonceLen: 12}}
			}
			p.Tokens = append(p.Tokens, ts)
		}
	} else {
		for i := 0; i < n; i++ {
			p.Tokens = append(p.Tokens, genTokSpec(r, len(p.Cast), fmt.Sprintf("t%d", i), r.Chance(0.3)))
		}
		if n > 0 && g.Index%8 == 3 {
			// one token far larger than any internal buffer (4 KiB, 64 KiB)
			big := MetaSpec{Key: "blob", V: ptr(vBytes(r.Bytes(Pick(r, []int{5000, 9000, 66000, 70000, 140000}))))}
			t := &p.Tokens[r.Intn(n)]
			if t.Kind == "dlg" {
				t.Dlg.Meta = append(t.Dlg.Meta, big)
			} else {
				t.Inv.Meta = append(t.Inv.Meta, big)
			}
		}
	}
	p.AddOrder = r.Perm(n)
	p.Reuse = r.Chance(0.5)
	mkChunks := func() []int {
		var ch []int
		if r.Chance(0.6) {
			for j := r.Range(1, 4); j > 0; j-- {
				ch = append(ch, Pick(r, []int{1, 2, 3, 7, 64, 333, 4096}))
			}
		}
		return ch
	}
	if r.Chance(0.5) {
		p.Steps = append(p.Steps, CStep{Op: "matrix", Chunks: mkChunks(), Perm: r.Perm(n)})
	}
	for i := r.Range(1, 3); i > 0; i-- {
		p.Steps = append(p.Steps, CStep{Op: "roundtrip", Format: Pick(r, containerAPIs()), WStream: r.Chance(0.5), RStream: r.Chance(0.5), Chunks: mkChunks(), Perm: r.Perm(n)})
	}
	faults := []string{"bad_frame", "hostile_len", "data_flip", "data_flip", "data_flip_relabel", "data_flip_relabel", "cid_flip", "swap_cids", "foreign_entry", "dup_entry", "drop_byte", "len_flip", "version_flip", "trunc", "trailing", "text_flip", "edge_trunc", "edge_trunc", "edge_bad", "edge_bad", "alias_cid", "alias_cid", "weak_label", "weak_label", "entry_tail", "entry_tail"}
	for i := r.Range(2, 12); i > 0; i-- {
		pos := r.Intn(1 << 13)
		if r.Chance(0.3) {
			pos = r.Intn(16 + 64*8) // head and signature
		}
		p.Steps = append(p.Steps, CStep{Op: "corrupt", Format: Pick(r, containerAPIs()), WStream: r.Chance(0.5), RStream: r.Chance(0.5), Chunks: mkChunks(), Perm: r.Perm(n),
			Fault: Pick(r, faults), Entry: r.Intn(8), Pos: pos})
	}
	return p
}

func init() {
	register(&ScenarioDef{
		Name:  "container",
		Props: []string{"C17", "C08", "C09"},
		Gen:   genContainer,
		Exec:  execContainer,
		Decode: func(b []byte) (Plan, error) {
			var p ContainerPlan
			if err := json.Unmarshal(b, &p); err != nil {
				return nil, err
			}
			return &p, nil
		},
	})
}
