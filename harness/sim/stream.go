package sim

import (
	"bufio"
	"bytes"
	"encoding/json"
	"fmt"
	"io"
	"sort"
	"strings"
	"testing"
	"testing/synctest"

	"github.com/ipfs/go-cid"
	"github.com/ipld/go-ipld-prime/codec/dagcbor"

	"github.com/ucan-wg/go-ucan/pkg/container"
	"github.com/ucan-wg/go-ucan/token"
	"github.com/ucan-wg/go-ucan/token/delegation"
	"github.com/ucan-wg/go-ucan/token/invocation"
)

// The `stream` scenario: one artefact (a token through one of the stream
// APIs, or a container in one of the four formats), read and written through
// simulated endpoints that chunk, fail, end early, write short and fill up.
// Decides C18 (fault enumeration) and the CID clause of C08.

type SStep struct {
	Op      string     `json:"op"` // chunk rfault wfault every_offset every_write
	Chunks  []int      `json:"chunks,omitempty"`
	EOFData bool       `json:"eof_with_data,omitempty"`
	RF      ReadFault  `json:"rf,omitempty"`
	WF      WriteFault `json:"wf,omitempty"`
	Lo      int        `json:"lo,omitempty"` // enumeration range [Lo,Hi]; Hi<0 = up to the artefact's end
	Hi      int        `json:"hi,omitempty"`
	Kinds   []string   `json:"kinds,omitempty"`
	Stride  int        `json:"stride,omitempty"` // every_offset over a large artefact: every Stride-th offset, plus dense windows (see step)
}

type StreamPlan struct {
	Cast   []Principal `json:"cast"`
	Art    string      `json:"artefact"` // token | container
	API    string      `json:"api"`      // token: sealed dagcbor dagjson decode ; container: car cbor carb64 cborb64
	Typed  bool        `json:"typed,omitempty"`
	Tokens []TokSpec   `json:"tokens"`
	Perm   []int       `json:"perm,omitempty"`
	Steps  []SStep     `json:"steps"`
}

func (p *StreamPlan) Len() int { return len(p.Steps) }
func (p *StreamPlan) Keep(keep []bool) Plan {
	q := *p
	q.Steps = nil
	for i, s := range p.Steps {
		if keep[i] {
			q.Steps = append(q.Steps, s)
		}
	}
	return &q
}
func (p *StreamPlan) clone() *StreamPlan {
	b, _ := json.Marshal(p)
	var q StreamPlan
	json.Unmarshal(b, &q)
	return &q
}
func (p *StreamPlan) Summary() map[string]any {
	var ops []string
	for _, s := range p.Steps {
		ops = append(ops, s.Op)
	}
	b, _ := json.Marshal(p)
	var full any
	if len(b) < 5000 {
		json.Unmarshal(b, &full)
	}
	return map[string]any{"scenario": "stream", "artefact": p.Art, "api": p.API, "typed": p.Typed, "tokens": len(p.Tokens), "ops": ops, "plan": full}
}

func (p *StreamPlan) Simpler() []Plan {
	var out []Plan
	mut := func(f func(q *StreamPlan) bool) {
		q := p.clone()
		if f(q) {
			out = append(out, q)
		}
	}
	for i, s := range p.Steps {
		i := i
		switch s.Op {
		case "every_offset", "every_write":
			if len(s.Kinds) > 1 {
				for _, k := range s.Kinds {
					k := k
					mut(func(q *StreamPlan) bool { q.Steps[i].Kinds = []string{k}; return true })
				}
			}
			// bisect the range (Hi<0 is resolved by the executor against 4096)
			hi := s.Hi
			if hi < 0 {
				hi = 1 << 14
			}
			if hi > s.Lo {
				mid := (s.Lo + hi) / 2
				mut(func(q *StreamPlan) bool { q.Steps[i].Hi = mid; return true })
				mut(func(q *StreamPlan) bool { q.Steps[i].Lo = mid + 1; q.Steps[i].Hi = hi; return true })
			}
		case "chunk", "rfault":
			if len(s.Chunks) > 0 || s.EOFData {
				mut(func(q *StreamPlan) bool { q.Steps[i].Chunks = nil; q.Steps[i].EOFData = false; return true })
			}
		}
	}
	if len(p.Tokens) > 1 {
		for j := range p.Tokens {
			j := j
			mut(func(q *StreamPlan) bool { q.Tokens = append(q.Tokens[:j:j], q.Tokens[j+1:]...); return true })
		}
	}
	for i := range p.Cast {
		if p.Cast[i].Alg != "ed25519" {
			i := i
			mut(func(q *StreamPlan) bool { q.Cast[i] = Principal{"ed25519", i % poolSize["ed25519"]}; return true })
		}
	}
	return out
}

// ------------------------------------------------------------------ executor

type streamExec struct {
	t    *testing.T
	o    *Outcome
	p    *StreamPlan
	seed uint64
	cast cast

	objs   []token.Token
	sealed [][]byte // per token
	ref    []byte   // reference artefact bytes (container: entries in normalised order)
	refRec []string // buffered decode: sorted "cidhex=content"
	wcalls int
	wsizes []int
	bounds map[int]bool // CAR: offsets (in decoded binary) at which a cut falls between two sections
	sigLo  int
	sigHi  int
}

func execStream(t *testing.T, pl Plan, seed uint64, o *Outcome) {
	p := pl.(*StreamPlan)
	e := &streamExec{t: t, o: o, p: p, seed: seed}
	for _, c := range p.Cast {
		e.cast = append(e.cast, normPrincipal(c))
	}
	if len(e.cast) == 0 {
		e.cast = cast{{"ed25519", 0}}
	}
	synctest.Test(t, func(t *testing.T) {
		defer func() {
			if r := recover(); r != nil {
				o.Harness(fmt.Sprintf("panic in stream executor: %v", r))
			}
		}()
		if !e.prepare() {
			return
		}
		for i := range p.Steps {
			e.step(&p.Steps[i])
			if o.HarnessErr != "" {
				return
			}
		}
	})
}

func (e *streamExec) isContainer() bool { return e.p.Art == "container" }

func tokenAPIs() []string     { return []string{"sealed", "dagcbor", "dagjson", "decode"} }
func containerAPIs() []string { return []string{"car", "cbor", "carb64", "cborb64"} }

// prepare builds the reference artefact through the buffered API and runs the
// fault-free stream write once (bytes and CID must agree; counts write calls).
func (e *streamExec) prepare() bool {
	o := e.o
	p := e.p
	if len(p.Tokens) == 0 && !e.isContainer() {
		return false
	}
	for i, ts := range p.Tokens {
		obj, err := buildTok(e.cast, ts)
		if err != nil || obj == nil {
			o.Logf("token %d: constructor refused", i)
			return false
		}
		reseed(e.t, e.seed, "seal"+fmt.Sprint(i))
		var b []byte
		var c cid.Cid
		if guard(o, "ToSealed", func() { b, c, err = obj.ToSealed(e.cast.ent(ts.iss()).priv) }) {
			return false
		}
		if err != nil {
			o.Logf("token %d: cannot be sealed (reported under C07 elsewhere)", i)
			return false
		}
		o.Eval("C08")
		if !bytes.Equal(c.Bytes(), harnessCID(b)) {
			o.Violate("C08", "seal-cid", "ToSealed CID is not the hash of the sealed bytes", nil)
		}
		e.objs = append(e.objs, obj)
		e.sealed = append(e.sealed, b)
	}
	if !e.isContainer() {
		return e.prepareToken()
	}
	return e.prepareContainer()
}

func (e *streamExec) priv(i int) any { return nil }

// encodeToken runs the buffered or the streaming encoder of the plan's API.
func (e *streamExec) encodeToken(w io.Writer) (out []byte, c cid.Cid, err error) {
	obj := e.objs[0]
	pk := e.cast.ent(e.p.Tokens[0].iss()).priv
	reseed(e.t, e.seed, "seal0")
	switch e.p.API {
	case "sealed":
		if w == nil {
			return obj.ToSealed(pk)
		}
		c, err = obj.ToSealedWriter(w, pk)
		return nil, c, err
	case "dagjson":
		if w == nil {
			out, err = obj.ToDagJson(pk)
			return out, cid.Undef, err
		}
		return nil, cid.Undef, obj.ToDagJsonWriter(w, pk)
	case "decode":
		if w == nil {
			out, err = obj.Encode(pk, dagcbor.Encode)
			return out, cid.Undef, err
		}
		return nil, cid.Undef, obj.EncodeWriter(w, pk, dagcbor.Encode)
	default:
		if w == nil {
			out, err = obj.ToDagCbor(pk)
			return out, cid.Undef, err
		}
		return nil, cid.Undef, obj.ToDagCborWriter(w, pk)
	}
}

func (e *streamExec) prepareToken() bool {
	o := e.o
	var ref []byte
	var c cid.Cid
	var err error
	if guard(o, "encode:"+e.p.API, func() { ref, c, err = e.encodeToken(nil) }) {
		return false
	}
	if err != nil {
		o.Logf("buffered encode failed")
		return false
	}
	e.ref = ref
	if e.p.API == "sealed" {
		o.Eval("C08")
		if !bytes.Equal(c.Bytes(), harnessCID(ref)) {
			o.Violate("C08", "seal-cid", "ToSealed CID is not the hash of the sealed bytes", nil)
		}
	}
	// buffered decode of the complete bytes = what every stream read must equal
	keepRef := string(ref)
	tk, dc, derr := e.decodeToken(nil, ref)
	if keepRef != string(ref) {
		o.Violate("C18", "input-bytes-changed", "the buffered decoder changed the byte slice it was given (the same bytes can no longer be read as a stream)", map[string]string{"api": e.p.API})
		ref = []byte(keepRef)
		e.ref = ref
	}
	if derr != nil || isNilTok(tk) {
		o.Logf("buffered decode failed (reported under C07 elsewhere): %v", derr != nil)
		return false
	}
	e.refRec = []string{cidHex(dc.Bytes()) + "=" + recOf(tk).Content()}
	if e.p.API == "sealed" {
		o.Eval("C08")
		if !bytes.Equal(dc.Bytes(), harnessCID(ref)) {
			o.Violate("C08", "unseal-cid", "FromSealed CID is not the hash of the sealed bytes", nil)
		}
	}
	// fault-free stream write
	sw := newSimWriter(WriteFault{})
	var wc cid.Cid
	if guard(o, "encode-writer:"+e.p.API, func() { _, wc, err = e.encodeToken(sw) }) {
		return false
	}
	o.Eval("C18")
	o.Sig("C18", "token", e.p.API, e.p.Typed, "write", "fault-free")
	if err != nil {
		o.Violate("C18", "write-faultfree-failed", fmt.Sprintf("stream write without faults failed: %v", err), map[string]string{"api": e.p.API})
		return false
	}
	if !bytes.Equal(sw.Bytes(), ref) {
		o.Violate("C18", "write-bytes-differ", "stream write produced other bytes than the buffered call", map[string]string{"api": e.p.API})
	}
	if e.p.API == "sealed" {
		o.Eval("C08")
		if !bytes.Equal(wc.Bytes(), c.Bytes()) || !bytes.Equal(wc.Bytes(), harnessCID(sw.Bytes())) {
			o.Violate("C08", "stream-seal-cid", "ToSealedWriter CID differs from ToSealed CID / hash of the sink", nil)
		}
		o.Sig("C08", "seal", "stream-vs-buffer", e.p.Tokens[0].Kind)
	}
	// the sinks callers actually hand over: a bytes.Buffer, fresh or already holding a frame
	// prefix / an earlier token (output is APPENDED and the CID is that of the appended bytes)
	for _, prefix := range [][]byte{nil, {0xca, 0xfe}, ref} {
		buf := bytes.NewBuffer(append([]byte{}, prefix...))
		var bc cid.Cid
		if guard(o, "encode-writer:"+e.p.API, func() { _, bc, err = e.encodeToken(buf) }) {
			return false
		}
		o.Eval("C18")
		o.Sig("C18", "token", e.p.API, e.p.Typed, "write", "bytes.Buffer", len(prefix) > 0)
		attrs := map[string]string{"api": e.p.API, "sink": "bytes.Buffer"}
		if err != nil {
			o.Violate("C18", "write-faultfree-failed", fmt.Sprintf("stream write into a bytes.Buffer holding %d bytes failed: %v", len(prefix), err), attrs)
			continue
		}
		got := buf.Bytes()
		if len(got) < len(prefix) || !bytes.Equal(got[:len(prefix)], prefix) || !bytes.Equal(got[len(prefix):], ref) {
			o.Violate("C18", "write-bytes-differ", fmt.Sprintf("stream write into a bytes.Buffer holding %d bytes did not append exactly the bytes of the buffered call", len(prefix)), attrs)
		}
		if e.p.API == "sealed" {
			o.Eval("C08")
			if !bytes.Equal(bc.Bytes(), harnessCID(ref)) {
				o.Violate("C08", "stream-seal-cid", fmt.Sprintf("ToSealedWriter into a bytes.Buffer holding %d bytes reports a CID that is not the hash of the token it wrote", len(prefix)), attrs)
				o.Violate("C18", "write-cid-differs", fmt.Sprintf("ToSealedWriter into a bytes.Buffer holding %d bytes reports another CID than the buffered call", len(prefix)), attrs)
			}
		}
	}
	// the sources callers actually hand over (standard-library readers a decoder may recognise by
	// type): the same bytes give the same token and CID; followed by bytes that do not belong to
	// the token they give what the buffered call gives for the whole input
	tail := []byte{0x00}
	if e.p.API == "dagjson" {
		tail = []byte("{}")
	}
	for _, extra := range [][]byte{nil, tail, ref} {
		whole := append(append([]byte{}, ref...), extra...)
		wantRec, wantErr := e.refRec, false
		if extra != nil {
			btk, bc, berr := e.decodeToken(nil, append([]byte{}, whole...))
			wantErr = berr != nil || isNilTok(btk)
			if !wantErr {
				wantRec = []string{cidHex(bc.Bytes()) + "=" + recOf(btk).Content()}
			}
		}
		srcs := []struct {
			name string
			r    io.Reader
		}{
			{"bytes.Reader", bytes.NewReader(append([]byte{}, whole...))},
			{"bytes.Buffer", bytes.NewBuffer(append([]byte{}, whole...))},
			{"strings.Reader", strings.NewReader(string(whole))},
			{"bufio.Reader", bufio.NewReaderSize(bytes.NewReader(append([]byte{}, whole...)), 16)},
			{"io.LimitedReader", io.LimitReader(bytes.NewReader(append(append([]byte{}, whole...), 0xff, 0xff)), int64(len(whole)))},
		}
		for _, src := range srcs {
			var stk token.Token
			var sc cid.Cid
			var serr error
			if guard(o, "decode-reader:"+e.p.API, func() { stk, sc, serr = e.decodeToken(src.r, nil) }) {
				return false
			}
			o.Eval("C18")
			o.Sig("C18", "token", e.p.API, e.p.Typed, "read", src.name, len(extra) > 0, serr == nil)
			attrs := map[string]string{"api": e.p.API, "source": src.name}
			gotErr := serr != nil || isNilTok(stk)
			switch {
			case gotErr != wantErr:
				o.Violate("C18", "std-reader-differs", fmt.Sprintf("reading %d token bytes followed by %d others from a %s: error=%v, the buffered call on the same bytes: error=%v", len(ref), len(extra), src.name, gotErr, wantErr), attrs)
			case !gotErr:
				if rec := cidHex(sc.Bytes()) + "=" + recOf(stk).Content(); len(wantRec) != 1 || rec != wantRec[0] {
					o.Violate("C18", "std-reader-differs", fmt.Sprintf("reading from a %s gives another token or CID than the buffered call on the same bytes", src.name), attrs)
				}
			}
		}
	}
	// several tokens back to back on ONE stream, read one after the other through the generic
	// reader entry point with a caller-supplied codec that stops at the end of each item: every
	// read gives its own token, however the stream is chunked (what one call reads ahead is not
	// lost to the next)
	if e.p.API == "decode" || e.p.API == "dagcbor" || e.p.API == "sealed" {
		if one, derr := token.Decode(ref, dagcbor.Decode); derr == nil && !isNilTok(one) {
			want := recOf(one).Content()
			stopAtEnd := dagcbor.DecodeOptions{AllowLinks: true, DontParseBeyondEnd: true}.Decode
			three := append(append(append([]byte{}, ref...), ref...), ref...)
			for _, chunks := range [][]int{nil, {len(ref)}, {len(ref) + 7}, {2*len(ref) - 3}, {1}, {len(ref) / 2}} {
				src := newSimReader(three, chunks, false, ReadFault{})
				for k := 0; k < 3; k++ {
					var tk token.Token
					var terr error
					if guard(o, "token.DecodeReader(caller-supplied codec)", func() { tk, terr = token.DecodeReader(src, stopAtEnd) }) {
						return false
					}
					o.Eval("C18")
					o.Sig("C18", "token", e.p.API, "read", "back-to-back", len(chunks), k, terr == nil)
					if terr != nil || isNilTok(tk) || recOf(tk).Content() != want {
						o.Violate("C18", "stream-read-differs", fmt.Sprintf("three tokens back to back on one stream (chunks %v), read with a codec that stops at the end of the item: read %d gives an error or another token (error: %v)", chunks, k+1, terr != nil), map[string]string{"api": "DecodeReader", "source": "back-to-back"})
						break
					}
				}
			}
		}
	}
	e.wcalls, e.wsizes = sw.calls, sw.sizes
	if e.p.API != "dagjson" {
		if env, err := cbDecodeAll(ref); err == nil && env.Major == 4 && len(env.Kids) == 2 {
			e.sigLo, e.sigHi = env.Kids[0].Off, env.Kids[0].End
		}
	}
	o.Logf("token artefact api=%s typed=%v len=%d wcalls=%d", e.p.API, e.p.Typed, len(ref), e.wcalls)
	return true
}

// decodeToken runs the buffered (r == nil) or streaming decoder.
func (e *streamExec) decodeToken(r io.Reader, data []byte) (tk token.Token, c cid.Cid, err error) {
	kind := e.p.Tokens[0].Kind
	typed := e.p.Typed
	wrap := func(d *delegation.Token, i *invocation.Token) token.Token {
		if d != nil {
			return d
		}
		if i != nil {
			return i
		}
		return nil
	}
	var d *delegation.Token
	var i *invocation.Token
	switch e.p.API {
	case "sealed":
		switch {
		case !typed && r == nil:
			return token.FromSealed(data)
		case !typed:
			return token.FromSealedReader(r)
		case kind == "dlg" && r == nil:
			d, c, err = delegation.FromSealed(data)
		case kind == "dlg":
			d, c, err = delegation.FromSealedReader(r)
		case r == nil:
			i, c, err = invocation.FromSealed(data)
		default:
			i, c, err = invocation.FromSealedReader(r)
		}
		return wrap(d, i), c, err
	case "dagjson":
		switch {
		case !typed && r == nil:
			tk, err = token.FromDagJson(data)
		case !typed:
			tk, err = token.FromDagJsonReader(r)
		case kind == "dlg" && r == nil:
			d, err = delegation.FromDagJson(data)
			tk = wrap(d, nil)
		case kind == "dlg":
			d, err = delegation.FromDagJsonReader(r)
			tk = wrap(d, nil)
		case r == nil:
			i, err = invocation.FromDagJson(data)
			tk = wrap(nil, i)
		default:
			i, err = invocation.FromDagJsonReader(r)
			tk = wrap(nil, i)
		}
		return tk, cid.Undef, err
	case "decode":
		switch {
		case !typed && r == nil:
			tk, err = token.Decode(data, dagcbor.Decode)
		case !typed:
			tk, err = token.DecodeReader(r, dagcbor.Decode)
		case kind == "dlg" && r == nil:
			d, err = delegation.Decode(data, dagcbor.Decode)
			tk = wrap(d, nil)
		case kind == "dlg":
			d, err = delegation.DecodeReader(r, dagcbor.Decode)
			tk = wrap(d, nil)
		case r == nil:
			i, err = invocation.Decode(data, dagcbor.Decode)
			tk = wrap(nil, i)
		default:
			i, err = invocation.DecodeReader(r, dagcbor.Decode)
			tk = wrap(nil, i)
		}
		return tk, cid.Undef, err
	default:
		switch {
		case !typed && r == nil:
			tk, err = token.FromDagCbor(data)
		case !typed:
			tk, err = token.FromDagCborReader(r)
		case kind == "dlg" && r == nil:
			d, err = delegation.FromDagCbor(data)
			tk = wrap(d, nil)
		case kind == "dlg":
			d, err = delegation.FromDagCborReader(r)
			tk = wrap(d, nil)
		case r == nil:
			i, err = invocation.FromDagCbor(data)
			tk = wrap(nil, i)
		default:
			i, err = invocation.FromDagCborReader(r)
			tk = wrap(nil, i)
		}
		return tk, cid.Undef, err
	}
}

// ---- containers

func (e *streamExec) writer() container.Writer {
	w := container.NewWriter()
	for _, b := range e.sealed {
		w.AddSealed(mustCID(harnessCID(b)), b)
	}
	return w
}

func (e *streamExec) writeContainer(w io.Writer) ([]byte, error) {
	cw := e.writer()
	switch e.p.API {
	case "car":
		if w == nil {
			return cw.ToCar()
		}
		return nil, cw.ToCarWriter(w)
	case "carb64":
		if w == nil {
			return cw.ToCarBase64()
		}
		return nil, cw.ToCarBase64Writer(w)
	case "cborb64":
		if w == nil {
			return cw.ToCborBase64()
		}
		return nil, cw.ToCborBase64Writer(w)
	default:
		if w == nil {
			return cw.ToCbor()
		}
		return nil, cw.ToCborWriter(w)
	}
}

func (e *streamExec) readContainer(r io.Reader, data []byte) (container.Reader, error) {
	switch e.p.API {
	case "car":
		if r == nil {
			return container.FromCar(data)
		}
		return container.FromCarReader(r)
	case "carb64":
		if r == nil {
			return container.FromCarBase64(data)
		}
		return container.FromCarBase64Reader(r)
	case "cborb64":
		if r == nil {
			return container.FromCborBase64(data)
		}
		return container.FromCborBase64Reader(r)
	default:
		if r == nil {
			return container.FromCbor(data)
		}
		return container.FromCborReader(r)
	}
}

// normaliseContainer parses container bytes with the harness parser and
// returns them with the entries in CID order (then permuted by the plan).
func (e *streamExec) normalise(raw []byte) ([]byte, [][]byte, bool) {
	b, en, _, ok := e.normalise2(raw)
	return b, en, ok
}

func (e *streamExec) normalise2(raw []byte) ([]byte, [][]byte, map[int]bool, bool) {
	bin := raw
	isB64 := strings.HasSuffix(e.p.API, "b64")
	if isB64 {
		var err error
		if bin, err = unb64(raw); err != nil {
			return nil, nil, nil, false
		}
	}
	var entries [][]byte
	bounds := map[int]bool{}
	if strings.HasPrefix(e.p.API, "car") {
		f, err := parseCAR(bin)
		if err != nil || !f.Complete {
			return nil, nil, nil, false
		}
		f.sortBlocks(e.p.Perm)
		for _, b := range f.Blocks {
			entries = append(entries, b.Data)
		}
		bin = f.Bytes()
		for _, b := range f.Boundaries() {
			bounds[b] = true
		}
	} else {
		es, err := parseCborContainer(bin)
		if err != nil {
			return nil, nil, nil, false
		}
		entries = sortEntries(es, e.p.Perm)
		bin = buildCborContainer("ctn-v1", entries)
	}
	if isB64 {
		return b64(bin), entries, bounds, true
	}
	return bin, entries, bounds, true
}

func entrySet(entries [][]byte) []string {
	var out []string
	for _, en := range entries {
		out = append(out, cidHex(harnessCID(en)))
	}
	sort.Strings(out)
	return out
}

func readerRecs(rd container.Reader) []string {
	var out []string
	for c, tk := range rd {
		out = append(out, cidHex(c.Bytes())+"="+recOf(tk).Content())
	}
	sort.Strings(out)
	return out
}

func (e *streamExec) prepareContainer() bool {
	o := e.o
	var raw []byte
	var err error
	if guard(o, "container.To:"+e.p.API, func() { raw, err = e.writeContainer(nil) }) {
		return false
	}
	if err != nil {
		o.Violate("C17", "write-failed", fmt.Sprintf("buffered container write failed: %v", err), map[string]string{"format": e.p.API})
		return false
	}
	ref, entries, bounds, ok := e.normalise2(raw)
	e.bounds = bounds
	if !ok {
		o.Violate("C17", "writer-output-unparseable", "container writer output is not parseable by the harness framing parser", map[string]string{"format": e.p.API})
		return false
	}
	want := entrySet(e.sealed)
	if strings.Join(entrySet(entries), ",") != strings.Join(dedup(want), ",") {
		o.Violate("C17", "writer-entries", "container writer output does not hold exactly the sealed tokens that were added", map[string]string{"format": e.p.API})
		return false
	}
	e.ref = ref
	// buffered decode of the normalised bytes
	var rd container.Reader
	keepRef := string(ref)
	if guard(o, "container.From:"+e.p.API, func() { rd, err = e.readContainer(nil, ref) }) {
		return false
	}
	if keepRef != string(ref) {
		o.Violate("C18", "input-bytes-changed", "the byte-slice container reader changed the byte slice it was given (the same bytes can no longer be read as a stream)", map[string]string{"api": e.p.API})
		ref = []byte(keepRef)
		e.ref = ref
	}
	if err != nil {
		// reported under C17 by the container scenario; nothing to compare streams with
		o.Logf("buffered container read failed: format=%s", e.p.API)
		o.Probe("buffered_container_read_failed")
		// fall back to the stream reader as reference so that C18 can still be explored
		if guard(o, "container.FromReader:"+e.p.API, func() { rd, err = e.readContainer(bytes.NewReader(ref), nil) }) || err != nil {
			return false
		}
	}
	e.refRec = readerRecs(rd)
	// fault-free stream write: same entries, same framing
	sw := newSimWriter(WriteFault{})
	if guard(o, "container.ToWriter:"+e.p.API, func() { _, err = e.writeContainer(sw) }) {
		return false
	}
	o.Eval("C18")
	o.Sig("C18", "container", e.p.API, "write", "fault-free", len(e.sealed))
	if err != nil {
		o.Violate("C18", "write-faultfree-failed", fmt.Sprintf("stream write without faults failed: %v", err), map[string]string{"api": e.p.API})
		return false
	}
	sref, _, ok := e.normalise(sw.Bytes())
	if !ok || !bytes.Equal(sref, ref) {
		o.Violate("C18", "write-bytes-differ", "stream container write differs from the buffered write (after normalising entry order)", map[string]string{"api": e.p.API})
	}
	// a bytes.Buffer that already holds a frame prefix: the container is appended, whole
	bb := bytes.NewBuffer([]byte{0xca, 0xfe, 0x00})
	if guard(o, "container.ToWriter:"+e.p.API, func() { _, err = e.writeContainer(bb) }) {
		return false
	}
	o.Eval("C18")
	o.Sig("C18", "container", e.p.API, "write", "bytes.Buffer", len(e.sealed))
	if err != nil {
		o.Violate("C18", "write-faultfree-failed", fmt.Sprintf("stream write into a bytes.Buffer that holds 3 bytes failed: %v", err), map[string]string{"api": e.p.API, "sink": "bytes.Buffer"})
	} else if bref, _, ok := e.normalise(bb.Bytes()[3:]); !bytes.Equal(bb.Bytes()[:3], []byte{0xca, 0xfe, 0x00}) || !ok || !bytes.Equal(bref, ref) {
		o.Violate("C18", "write-bytes-differ", "stream container write into a bytes.Buffer that already holds bytes does not append the container of the buffered write", map[string]string{"api": e.p.API, "sink": "bytes.Buffer"})
	}
	e.wcalls, e.wsizes = sw.calls, sw.sizes
	// (the number of write calls a base64 writer issues depends on the order in which the
	// Writer's map hands out entries of different sizes: it is kept out of the event log)
	o.Logf("container artefact api=%s entries=%d len=%d", e.p.API, len(entries), len(ref))
	return true
}

func dedup(xs []string) []string {
	var out []string
	for i, x := range xs {
		if i == 0 || x != xs[i-1] {
			out = append(out, x)
		}
	}
	return out
}

// ---- steps

// recover: once the faults have stopped, the very next fault-free stream write and read must be
// right again (nothing of a failed call may linger in the library)
func (e *streamExec) recover() {
	o := e.o
	var err error
	sw := newSimWriter(WriteFault{})
	if e.isContainer() {
		if guard(o, "container.ToWriter:"+e.p.API, func() { _, err = e.writeContainer(sw) }) {
			return
		}
		o.Eval("C18")
		o.Sig("C18", "container", e.p.API, "write", "after-faults")
		if err != nil {
			o.Violate("C18", "write-faultfree-failed", fmt.Sprintf("stream write after the faults stopped failed: %v", err), map[string]string{"api": e.p.API})
		} else if sref, _, ok := e.normalise(sw.Bytes()); !ok || !bytes.Equal(sref, e.ref) {
			o.Violate("C18", "write-bytes-differ", "stream container write after the faults stopped differs from the buffered write", map[string]string{"api": e.p.API})
		}
	} else {
		var wc cid.Cid
		if guard(o, "encode-writer:"+e.p.API, func() { _, wc, err = e.encodeToken(sw) }) {
			return
		}
		o.Eval("C18")
		o.Sig("C18", "token", e.p.API, e.p.Typed, "write", "after-faults")
		if err != nil {
			o.Violate("C18", "write-faultfree-failed", fmt.Sprintf("stream write after the faults stopped failed: %v", err), map[string]string{"api": e.p.API})
		} else if !bytes.Equal(sw.Bytes(), e.ref) {
			o.Violate("C18", "write-bytes-differ", "stream write after the faults stopped produced other bytes than the buffered call", map[string]string{"api": e.p.API})
		} else if e.p.API == "sealed" {
			o.Eval("C08")
			if !bytes.Equal(wc.Bytes(), harnessCID(sw.Bytes())) {
				o.Violate("C08", "stream-seal-cid", "ToSealedWriter CID after the faults stopped is not the hash of the sink", nil)
			}
		}
	}
	e.readOnce(nil, false, ReadFault{})
	e.readOnce([]int{7}, true, ReadFault{})
}

func (e *streamExec) step(s *SStep) {
	switch s.Op {
	case "recover":
		e.recover()
	case "chunk":
		e.readOnce(s.Chunks, s.EOFData, ReadFault{})
	case "rfault":
		e.readOnce(s.Chunks, s.EOFData, s.RF)
	case "wfault":
		e.writeOnce(s.WF)
	case "trailing":
		e.trailing(s)
	case "every_offset":
		hi := s.Hi
		if hi < 0 || hi > len(e.ref) {
			hi = len(e.ref)
		}
		kinds := s.Kinds
		if len(kinds) == 0 {
			kinds = []string{"err", "err_n", "eof", "err_weof"}
			if len(e.ref) < 3000 {
				kinds = append(kinds, "err_wueof", "err_n1")
			}
		}
		// a large artefact is not enumerated offset by offset: every Stride-th offset, and densely
		// (+/-40) around the start and the end, around every section boundary and around the
		// multiples of 32 KiB counted from each boundary (where implementations that read large
		// sections piecewise change piece)
		dense := map[int]bool{}
		if s.Stride > 1 {
			scale := func(b int) int {
				if strings.HasSuffix(e.p.API, "b64") {
					return b / 3 * 4
				}
				return b
			}
			marks := []int{0, len(e.ref)}
			bs := []int{0}
			for b := range e.bounds {
				bs = append(bs, b)
			}
			for _, b := range bs {
				for m := 0; m <= 8; m++ {
					marks = append(marks, scale(b+m*32768))
				}
			}
			for _, m := range marks {
				for d := -40; d <= 40; d++ {
					dense[m+d] = true
				}
			}
		}
		for k := s.Lo; k <= hi; k++ {
			if s.Stride > 1 && k%s.Stride != 0 && !dense[k] {
				continue
			}
			for _, kind := range kinds {
				if kind == "eof" && k == len(e.ref) {
					continue
				}
				e.readOnce(s.Chunks, s.EOFData, ReadFault{Kind: kind, At: k})
			}
		}
	case "every_write":
		kinds := s.Kinds
		if len(kinds) == 0 {
			kinds = []string{"err", "short", "err1", "short1", "full"}
		}
		for _, kind := range kinds {
			n := e.wcalls
			if kind == "full" {
				n = len(e.ref)
			}
			hi := s.Hi
			if hi < 0 || hi >= n {
				hi = n - 1
			}
			for k := s.Lo; k <= hi; k++ {
				e.writeOnce(WriteFault{Kind: kind, At: k})
			}
		}
	}
}

// trailing: the artefact followed by more bytes (garbage, or a second copy of itself): the
// streaming and the buffered API must agree on whether that is acceptable, and on the result.
func (e *streamExec) trailing(s *SStep) {
	o := e.o
	extra := []byte{byte(s.Lo), byte(s.Lo >> 8), 0xf6}
	if s.Lo%3 == 0 {
		extra = append([]byte{}, e.ref...)
	} else if s.Lo%3 == 1 {
		extra = []byte{0x00}
	}
	data := append(append([]byte{}, e.ref...), extra...)
	var bufRecs, strRecs []string
	var bufErr, strErr error
	entry := "trailing:" + e.p.Art + ":" + e.p.API
	if e.isContainer() {
		var rd container.Reader
		if guard(o, entry, func() { rd, bufErr = e.readContainer(nil, data) }) {
			return
		}
		if bufErr == nil {
			bufRecs = readerRecs(rd)
		}
		if guard(o, entry, func() { rd, strErr = e.readContainer(newSimReader(data, s.Chunks, s.EOFData, ReadFault{}), nil) }) {
			return
		}
		if strErr == nil {
			strRecs = readerRecs(rd)
		}
	} else {
		var tk token.Token
		var c cid.Cid
		if guard(o, entry, func() { tk, c, bufErr = e.decodeToken(nil, data) }) {
			return
		}
		if bufErr == nil && !isNilTok(tk) {
			bufRecs = []string{cidHex(c.Bytes()) + "=" + recOf(tk).Content()}
		}
		if guard(o, entry, func() { tk, c, strErr = e.decodeToken(newSimReader(data, s.Chunks, s.EOFData, ReadFault{}), nil) }) {
			return
		}
		if strErr == nil && !isNilTok(tk) {
			strRecs = []string{cidHex(c.Bytes()) + "=" + recOf(tk).Content()}
		}
	}
	o.Eval("C18")
	o.Sig("C18", e.p.Art, e.p.API, e.p.Typed, "trailing", s.Lo%3, bufErr == nil, strErr == nil)
	o.Fault("trailing_data")
	if (bufErr == nil) != (strErr == nil) || strings.Join(bufRecs, ";") != strings.Join(strRecs, ";") {
		o.Violate("C18", "stream-buffer-disagree", fmt.Sprintf("%s %s followed by %d more bytes: buffered API error=%v, streaming API error=%v (results equal: %v)", e.p.Art, e.p.API, len(extra), bufErr != nil, strErr != nil, strings.Join(bufRecs, ";") == strings.Join(strRecs, ";")), map[string]string{"api": e.p.API, "artefact": e.p.Art})
	}
}

func (e *streamExec) posClass(k int) string {
	n := len(e.ref)
	switch {
	case k == 0:
		return "first"
	case k >= n:
		return "end"
	case k == n-1:
		return "last"
	case e.isContainer():
		if e.bounds[k] {
			return "boundary"
		}
		return "inside"
	case k < 3:
		return "head"
	case k >= e.sigLo && k < e.sigHi:
		return "signature"
	}
	return "payload"
}

func chunkClass(ch []int, eofData bool) string {
	c := "whole"
	if len(ch) > 0 {
		c = "mixed"
		if len(ch) == 1 && ch[0] == 1 {
			c = "1byte"
		}
		for _, x := range ch {
			if x == 0 {
				c += "+zero"
				break
			}
		}
	}
	if eofData {
		c += "+eofdata"
	}
	return c
}

func (e *streamExec) readOnce(chunks []int, eofData bool, f ReadFault) {
	o := e.o
	r := newSimReader(e.ref, chunks, eofData, f)
	var recs []string
	var err error
	var gotTok bool
	var gotCID cid.Cid
	entry := "read:" + e.p.Art + ":" + e.p.API
	if e.isContainer() {
		var rd container.Reader
		if guard(o, entry, func() { rd, err = e.readContainer(r, nil) }) {
			return
		}
		if rd != nil {
			gotTok = true
			recs = readerRecs(rd)
		}
	} else {
		var tk token.Token
		if guard(o, entry, func() { tk, gotCID, err = e.decodeToken(r, nil) }) {
			return
		}
		if !isNilTok(tk) {
			gotTok = true
			recs = []string{cidHex(gotCID.Bytes()) + "=" + recOf(tk).Content()}
		}
	}
	o.Eval("C18")
	attrs := map[string]string{"api": e.p.API, "artefact": e.p.Art, "fault": f.Kind, "pos": e.posClass(f.At)}
	outcome := "ok"
	if err != nil {
		outcome = "error"
	}
	o.Sig("C18", e.p.Art, e.p.API, e.p.Typed, "read", f.Kind, e.posClass(f.At), chunkClass(chunks, eofData), outcome, r.fired)
	if f.Kind != "" {
		o.Fault("read_" + f.Kind)
	}
	if !r.fired {
		// no fault reached the callee: the result must equal the buffered decode
		if err != nil {
			clause := "stream-read-failed"
			if strings.Contains(chunkClass(chunks, eofData), "+zero") {
				// kept apart: a (0, nil) read is legal for an io.Reader but rare
				clause = "zero-length-read"
			}
			o.Violate("C18", clause, fmt.Sprintf("stream read without a fired fault failed (%s chunks=%v): %v", e.p.API, chunks, err), attrs)
			return
		}
		if strings.Join(recs, ";") != strings.Join(e.refRec, ";") {
			o.Violate("C18", "stream-read-differs", fmt.Sprintf("stream read (%s chunks=%v eofdata=%v) differs from buffered decode", e.p.API, chunks, eofData), attrs)
		}
		if e.p.API == "sealed" {
			o.Eval("C08")
			o.Sig("C08", "unseal", chunkClass(chunks, eofData), e.p.Typed)
			if !bytes.Equal(gotCID.Bytes(), harnessCID(e.ref)) {
				o.Violate("C08", "stream-unseal-cid", "FromSealedReader CID is not the hash of the bytes read", nil)
			}
		}
		if f.Kind == "" {
			e.interleaved(chunks, eofData, attrs)
		}
		return
	}
	// a fault fired
	if err != nil {
		if gotTok {
			o.Violate("C18", "value-with-error", fmt.Sprintf("%s returned a value together with an error after %s@%d", e.p.API, f.Kind, f.At), attrs)
		}
		if !e.isContainer() && gotCID.Defined() {
			o.Violate("C18", "cid-with-error", fmt.Sprintf("%s returned a CID together with an error after %s@%d", e.p.API, f.Kind, f.At), attrs)
		}
		return
	}
	// success although a fault fired: only the CAR cut between two blocks is exempt ...
	if f.Kind == "err_n1" {
		// ... and the transient error that came together with the bytes asked for, after which the
		// source delivered everything: the callee saw every byte, so a success is tolerated (a
		// deliberate, narrow relaxation: reading helpers drop an error that comes with a satisfied
		// request), but only a success that is exactly the buffered result, CID included
		o.Probe("transient_read_error_survived")
		// By the letter of the property a failure of the source at any point makes the call fail.
		// The decoders that hash what they read (FromSealedReader) do latch such an error; the
		// others lose it inside the dependency's io.ReadAtLeast (an error that arrives with a
		// satisfied request is dropped) - recorded as a known finding, keyed on that attribute, so
		// that a sealed reader that starts swallowing it is still reported.
		ta := map[string]string{"api": e.p.API, "artefact": e.p.Art, "hashing_reader": fmt.Sprint(e.p.API == "sealed")}
		o.Violate("C18", "transient-read-error-swallowed", fmt.Sprintf("%s %s returned success although the source reported an error (together with the bytes asked for, once, at offset %d of %d) and then carried on", e.p.Art, e.p.API, f.At, len(e.ref)), ta)
		if strings.Join(recs, ";") != strings.Join(e.refRec, ";") {
			o.Violate("C18", "stream-read-differs", fmt.Sprintf("%s %s: a read error that came with its bytes at offset %d was survived, with another result than the buffered decode", e.p.Art, e.p.API, f.At), attrs)
		}
		if e.p.API == "sealed" {
			o.Eval("C08")
			if !bytes.Equal(gotCID.Bytes(), harnessCID(e.ref)) {
				o.Violate("C08", "stream-unseal-cid", "FromSealedReader survived a transient read error and reports a CID that is not the hash of the bytes read", nil)
			}
		}
		return
	}
	if f.Kind == "eof" && strings.HasPrefix(e.p.API, "car") {
		binCut := f.At
		clean := true
		if e.p.API == "carb64" {
			clean = f.At%4 == 0
			binCut = f.At / 4 * 3
			// a padded final quantum only occurs at the very end, which is not a cut
		}
		if clean && e.bounds[binCut] {
			o.Probe("car_cut_on_block_boundary")
			// must yield precisely the blocks before the cut
			bin := e.ref
			if e.p.API == "carb64" {
				bin, _ = unb64(e.ref)
			}
			f2, perr := parseCAR(bin[:binCut])
			if perr != nil {
				o.Harness("cannot parse the CAR prefix at a boundary")
				return
			}
			var ents [][]byte
			for _, b := range f2.Blocks {
				ents = append(ents, b.Data)
			}
			want := dedup(entrySet(ents))
			var got []string
			for _, rc := range recs {
				got = append(got, strings.SplitN(rc, "=", 2)[0])
			}
			if strings.Join(got, ",") != strings.Join(want, ",") {
				o.Violate("C18", "car-prefix-wrong", fmt.Sprintf("CAR cut at a block boundary (offset %d) did not yield exactly the blocks before the cut", f.At), attrs)
			}
			return
		}
	}
	o.Violate("C18", "read-fault-swallowed", fmt.Sprintf("%s %s returned success although the reader failed with %s at offset %d of %d", e.p.Art, e.p.API, f.Kind, f.At, len(e.ref)), attrs)
}

// interleaved: the same fault-free stream read, during which (the source having delivered a
// part and being asked for more) the same artefact is read a second time from start to end, as a
// second connection served meanwhile would be. Both reads give the buffered result.
func (e *streamExec) interleaved(chunks []int, eofData bool, attrs map[string]string) {
	o := e.o
	if len(chunks) == 0 {
		chunks = []int{40}
	}
	read := func(r io.Reader) ([]string, error) {
		if e.isContainer() {
			rd, err := e.readContainer(r, nil)
			if err != nil || rd == nil {
				return nil, err
			}
			return readerRecs(rd), nil
		}
		tk, c, err := e.decodeToken(r, nil)
		if err != nil || isNilTok(tk) {
			return nil, err
		}
		return []string{cidHex(c.Bytes()) + "=" + recOf(tk).Content()}, nil
	}
	for _, at := range []int{2, 3} {
		var inner, outer []string
		var ierr, oerr error
		nested := false
		src := &hookReader{inner: newSimReader(e.ref, chunks, eofData, ReadFault{}), at: at}
		src.hook = func() {
			nested = true
			inner, ierr = read(newSimReader(e.ref, []int{64}, false, ReadFault{}))
		}
		if guard(o, "read:"+e.p.Art+":"+e.p.API+" (two reads interleaved)", func() { outer, oerr = read(src) }) {
			return
		}
		if !nested {
			continue
		}
		o.Eval("C18")
		o.Fault("overlapping_reads")
		o.Sig("C18", e.p.Art, e.p.API, e.p.Typed, "read", "interleaved", at, oerr == nil, ierr == nil)
		for _, x := range []struct {
			who  string
			recs []string
			err  error
		}{{"the read that was in progress", outer, oerr}, {"the read made meanwhile", inner, ierr}} {
			if x.err != nil {
				o.Violate("C18", "stream-read-failed", fmt.Sprintf("%s %s: of two fault-free stream reads overlapping in time, %s failed: %v", e.p.Art, e.p.API, x.who, x.err), attrs)
				return
			}
			if strings.Join(x.recs, ";") != strings.Join(e.refRec, ";") {
				o.Violate("C18", "stream-read-differs", fmt.Sprintf("%s %s: of two fault-free stream reads overlapping in time, %s differs from the buffered decode (%d entries, %d expected)", e.p.Art, e.p.API, x.who, len(x.recs), len(e.refRec)), attrs)
				return
			}
		}
	}
}

func (e *streamExec) writeOnce(f WriteFault) {
	o := e.o
	sw := newSimWriter(f)
	var c cid.Cid
	var err error
	entry := "write:" + e.p.Art + ":" + e.p.API
	if e.isContainer() {
		if guard(o, entry, func() { _, err = e.writeContainer(sw) }) {
			return
		}
	} else if guard(o, entry, func() { _, c, err = e.encodeToken(sw) }) {
		return
	}
	o.Eval("C18")
	o.Fault("write_" + f.Kind)
	pos := "mid"
	switch {
	case f.Kind == "full":
		pos = "bytes"
	case f.At == 0:
		pos = "first-call"
	case f.At == e.wcalls-1:
		pos = "final-call"
	}
	attrs := map[string]string{"api": e.p.API, "artefact": e.p.Art, "fault": f.Kind, "pos": pos}
	outcome := "ok"
	if err != nil {
		outcome = "error"
	}
	o.Sig("C18", e.p.Art, e.p.API, "write", f.Kind, pos, outcome, sw.fired)
	if err != nil {
		if c.Defined() {
			o.Violate("C18", "cid-with-error", fmt.Sprintf("%s writer returned a CID together with an error", e.p.API), attrs)
		}
		return
	}
	// success: the sink must hold the complete artefact
	complete := false
	if e.isContainer() {
		got, _, ok := e.normalise(sw.Bytes())
		ref := e.ref
		complete = ok && bytes.Equal(got, ref)
	} else {
		complete = bytes.Equal(sw.Bytes(), e.ref)
	}
	if sw.fired || !complete {
		if sw.fired {
			o.Probe("write_fault_fired_and_success")
		}
		o.Violate("C18", "write-fault-swallowed", fmt.Sprintf("%s %s writer reported success although the sink failed (%s at %d; %d of %d bytes written, complete=%v)", e.p.Art, e.p.API, f.Kind, f.At, len(sw.Bytes()), len(e.ref), complete), attrs)
	}
}

// ------------------------------------------------------------------ generator

func genStream(r *Rand, g GenCfg) Plan {
	p := &StreamPlan{}
	p.Cast = genCast(r, g.Tier, 2, 4)
	if r.Chance(0.45) {
		p.Art = "container"
		p.API = Pick(r, containerAPIs())
		n := []int{0, 1, 1, 2, 3, 5}[r.Intn(6)]
		uniform := r.Chance(0.6)
		if uniform {
			// same-length entries, Ed25519 principals: the writer's map order cannot move byte counts
			p.Cast = nil
			for i := 0; i < 8; i++ {
				p.Cast = append(p.Cast, Principal{"ed25519", i})
			}
			for i := 0; i < n; i++ {
				p.Tokens = append(p.Tokens, uniformDlgSpec(i))
			}
		} else {
			for i := 0; i < n; i++ {
				p.Tokens = append(p.Tokens, genTokSpec(r, len(p.Cast), fmt.Sprintf("t%d", i), false))
			}
		}
		p.Perm = r.Perm(n)
		bigEntry := false
		if n >= 1 && g.Index%8 == 5 {
			// one entry larger than 4 KiB (a section that is written piecewise rather than at once),
			// alone in its container so that the writer's map order cannot move byte counts
			bigEntry = true
			ts := uniformDlgSpec(0)
			ts.Dlg.Meta = append(ts.Dlg.Meta, MetaSpec{Key: "blob", V: ptr(vBytes(r.Bytes(Pick(r, []int{4200, 6000, 9000}))))})
			p.Cast = nil
			for i := 0; i < 8; i++ {
				p.Cast = append(p.Cast, Principal{"ed25519", i})
			}
			p.Tokens = []TokSpec{ts}
			p.Perm = r.Perm(1)
			n = 1
		}
		hugeEntry := false
		if g.Index%16 == 13 && strings.HasPrefix(p.API, "car") {
			// a small token and one whose section is far larger than 64 KiB (read and written
			// piecewise by anything that bounds its buffers)
			hugeEntry = true
			ts := uniformDlgSpec(1)
			ts.Dlg.Meta = append(ts.Dlg.Meta, MetaSpec{Key: "blob", V: ptr(vBytes(r.Bytes(Pick(r, []int{70000, 140000, 205000}))))})
			p.Cast = nil
			for i := 0; i < 8; i++ {
				p.Cast = append(p.Cast, Principal{"ed25519", i})
			}
			p.Tokens = []TokSpec{uniformDlgSpec(0), ts}
			p.Perm = []int{0, 1}
			n = 2
		}
		if hugeEntry {
			p.Steps = append(p.Steps, SStep{Op: "every_write", Hi: 24})
			p.Steps = append(p.Steps, SStep{Op: "recover"}, SStep{Op: "chunk"}, SStep{Op: "chunk", Chunks: []int{4096}}, SStep{Op: "chunk", Chunks: []int{1000, 7}, EOFData: true})
			p.Steps = append(p.Steps, SStep{Op: "every_offset", Hi: -1, Stride: 4099, Kinds: []string{"err", "err_n", "eof", "err_weof"}, Chunks: Pick(r, [][]int{nil, {4096}, {65536}, {1000, 7}})})
			p.Steps = append(p.Steps, SStep{Op: "recover"})
			return p
		}
		if uniform || n <= 1 || bigEntry {
			p.Steps = append(p.Steps, SStep{Op: "every_write", Hi: -1})
		}
	} else {
		p.Art = "token"
		p.API = Pick(r, tokenAPIs())
		p.Typed = r.Chance(0.5)
		p.Tokens = []TokSpec{genTokSpec(r, len(p.Cast), "t0", true)}
		if r.Chance(0.2) {
			// a token with a large value: single writes / reads beyond the usual buffer sizes
			big := MetaSpec{Key: "blob", V: ptr(vBytes(r.Bytes(Pick(r, []int{4097, 6000, 9000}))))}
			if p.Tokens[0].Kind == "dlg" {
				p.Tokens[0].Dlg.Meta = append(p.Tokens[0].Dlg.Meta, big)
			} else {
				p.Tokens[0].Inv.Meta = append(p.Tokens[0].Inv.Meta, big)
			}
			p.Steps = append(p.Steps, SStep{Op: "every_write", Hi: 40}) // (the full enumeration would be thousands of large re-encodings)
		} else {
			p.Steps = append(p.Steps, SStep{Op: "every_write", Hi: -1})
		}
	}
	p.Steps = append(p.Steps, SStep{Op: "recover"})
	// chunkings
	p.Steps = append(p.Steps,
		SStep{Op: "chunk"},
		SStep{Op: "chunk", Chunks: []int{1}},
		SStep{Op: "chunk", EOFData: true},
		SStep{Op: "chunk", Chunks: []int{1}, EOFData: true})
	for i := r.Range(1, 3); i > 0; i-- {
		var ch []int
		for j := r.Range(1, 5); j > 0; j-- {
			ch = append(ch, Pick(r, []int{0, 1, 2, 3, 5, 8, 13, 64, 255, 1024, 4096}))
		}
		p.Steps = append(p.Steps, SStep{Op: "chunk", Chunks: ch, EOFData: r.Chance(0.5)})
	}
	for i := 0; i < 3; i++ {
		p.Steps = append(p.Steps, SStep{Op: "trailing", Lo: r.Intn(3000), Chunks: []int{Pick(r, []int{1, 7, 64, 4096})}, EOFData: r.Chance(0.5)})
	}
	// every read fault at every offset, under one chunking
	var ch []int
	if r.Chance(0.5) {
		for j := r.Range(1, 3); j > 0; j-- {
			ch = append(ch, Pick(r, []int{1, 2, 7, 64, 1000}))
		}
	}
	p.Steps = append(p.Steps, SStep{Op: "every_offset", Hi: -1, Chunks: ch})
	// a few individually placed faults under other chunkings
	for i := r.Range(0, 3); i > 0; i-- {
		p.Steps = append(p.Steps, SStep{Op: "rfault", Chunks: []int{Pick(r, []int{1, 3, 16})}, RF: ReadFault{Kind: Pick(r, []string{"err", "err_n", "eof"}), At: r.Intn(600)}})
	}
	p.Steps = append(p.Steps, SStep{Op: "recover"})
	return p
}

func init() {
	register(&ScenarioDef{
		Name:  "stream",
		Props: []string{"C18", "C08", "C09", "C17"},
		Gen:   genStream,
		Exec:  execStream,
		Decode: func(b []byte) (Plan, error) {
			var p StreamPlan
			if err := json.Unmarshal(b, &p); err != nil {
				return nil, err
			}
			return &p, nil
		},
	})
}
