package sim

import (
	"bytes"
	"crypto/sha256"
	"encoding/binary"
	"errors"
	"fmt"
	"math"
	"sort"
)

// A small CBOR tree codec owned by the harness (shares no code with go-ucan or
// go-ipld-prime). It exists so that the simulated transport, byzantine signers
// and oracles can take sealed artefacts apart and put them together again
// byte-exactly, including non-canonical forms.

type CB struct {
	Major byte   // 0..7
	Arg   uint64 // value, length, tag number, simple value or float bits
	Data  []byte // major 2 / 3
	Kids  []*CB  // major 4: elements; major 5: k,v,k,v...; major 6: one child

	Float int // major 7: 0 = simple value, 16/32/64 = float width (Arg holds the bits)

	// encoding choices (zero values = canonical)
	Width int  // forced head width in bytes of the argument (1,2,4,8); 0 = minimal
	Indef bool // indefinite length (major 2..5)

	Off, End int // byte range in the decoded source
}

func cbUint(v uint64) *CB { return &CB{Major: 0, Arg: v} }
func cbNint(v uint64) *CB { return &CB{Major: 1, Arg: v} } // value -1-v
func cbInt(v int64) *CB {
	if v >= 0 {
		return cbUint(uint64(v))
	}
	return cbNint(uint64(-1 - v))
}
func cbBytes(b []byte) *CB      { return &CB{Major: 2, Data: b} }
func cbText(s string) *CB       { return &CB{Major: 3, Data: []byte(s)} }
func cbArray(k ...*CB) *CB      { return &CB{Major: 4, Kids: k} }
func cbTag(n uint64, c *CB) *CB { return &CB{Major: 6, Arg: n, Kids: []*CB{c}} }
func cbBool(b bool) *CB {
	if b {
		return &CB{Major: 7, Arg: 21}
	}
	return &CB{Major: 7, Arg: 20}
}
func cbNull() *CB             { return &CB{Major: 7, Arg: 22} }
func cbUndef() *CB            { return &CB{Major: 7, Arg: 23} }
func cbFloat64(f float64) *CB { return &CB{Major: 7, Float: 64, Arg: math.Float64bits(f)} }

// cbLink builds a DAG-CBOR link (tag 42 over 0x00 ‖ cid bytes).
func cbLink(cid []byte) *CB { return cbTag(42, cbBytes(append([]byte{0}, cid...))) }

// cbMap builds a map from key/value pairs in DAG-CBOR canonical key order
// (shorter keys first, then bytewise).
func cbMap(kv ...*CB) *CB {
	m := &CB{Major: 5, Kids: kv}
	m.sortCanonical()
	return m
}

func (c *CB) sortCanonical() {
	type pair struct{ k, v *CB }
	ps := make([]pair, 0, len(c.Kids)/2)
	for i := 0; i+1 < len(c.Kids); i += 2 {
		ps = append(ps, pair{c.Kids[i], c.Kids[i+1]})
	}
	sort.SliceStable(ps, func(i, j int) bool {
		a, b := ps[i].k.Data, ps[j].k.Data
		if len(a) != len(b) {
			return len(a) < len(b)
		}
		return bytes.Compare(a, b) < 0
	})
	for i, p := range ps {
		c.Kids[2*i], c.Kids[2*i+1] = p.k, p.v
	}
}

func (c *CB) MapGet(key string) *CB {
	if c == nil || c.Major != 5 {
		return nil
	}
	for i := 0; i+1 < len(c.Kids); i += 2 {
		if c.Kids[i].Major == 3 && string(c.Kids[i].Data) == key {
			return c.Kids[i+1]
		}
	}
	return nil
}

func (c *CB) MapSet(key string, v *CB) {
	for i := 0; i+1 < len(c.Kids); i += 2 {
		if c.Kids[i].Major == 3 && string(c.Kids[i].Data) == key {
			c.Kids[i+1] = v
			return
		}
	}
	c.Kids = append(c.Kids, cbText(key), v)
	c.sortCanonical()
}

func (c *CB) MapDel(key string) bool {
	for i := 0; i+1 < len(c.Kids); i += 2 {
		if c.Kids[i].Major == 3 && string(c.Kids[i].Data) == key {
			c.Kids = append(c.Kids[:i:i], c.Kids[i+2:]...)
			return true
		}
	}
	return false
}

func (c *CB) MapKeys() []string {
	var ks []string
	for i := 0; i+1 < len(c.Kids); i += 2 {
		ks = append(ks, string(c.Kids[i].Data))
	}
	return ks
}

// Clone makes a deep copy (encoding choices included).
func (c *CB) Clone() *CB {
	if c == nil {
		return nil
	}
	d := *c
	if c.Data != nil {
		d.Data = append([]byte(nil), c.Data...)
	}
	if c.Kids != nil {
		d.Kids = make([]*CB, len(c.Kids))
		for i, k := range c.Kids {
			d.Kids[i] = k.Clone()
		}
	}
	return &d
}

// Walk visits every item in document order.
func (c *CB) Walk(f func(*CB)) {
	f(c)
	for _, k := range c.Kids {
		k.Walk(f)
	}
}

func (c *CB) Items() []*CB {
	var out []*CB
	c.Walk(func(x *CB) { out = append(out, x) })
	return out
}

// ----------------------------------------------------------------- encoding

func putHead(buf *bytes.Buffer, major byte, arg uint64, width int) {
	m := major << 5
	switch {
	case width == 0 && arg < 24:
		buf.WriteByte(m | byte(arg))
	case width == 1 || (width == 0 && arg <= 0xff):
		buf.WriteByte(m | 24)
		buf.WriteByte(byte(arg))
	case width == 2 || (width == 0 && arg <= 0xffff):
		buf.WriteByte(m | 25)
		var b [2]byte
		binary.BigEndian.PutUint16(b[:], uint16(arg))
		buf.Write(b[:])
	case width == 4 || (width == 0 && arg <= 0xffffffff):
		buf.WriteByte(m | 26)
		var b [4]byte
		binary.BigEndian.PutUint32(b[:], uint32(arg))
		buf.Write(b[:])
	default:
		buf.WriteByte(m | 27)
		var b [8]byte
		binary.BigEndian.PutUint64(b[:], arg)
		buf.Write(b[:])
	}
}

func (c *CB) encode(buf *bytes.Buffer) {
	switch c.Major {
	case 0, 1:
		putHead(buf, c.Major, c.Arg, c.Width)
	case 2, 3:
		if c.Indef {
			buf.WriteByte(c.Major<<5 | 31)
			putHead(buf, c.Major, uint64(len(c.Data)), 0)
			buf.Write(c.Data)
			buf.WriteByte(0xff)
			return
		}
		putHead(buf, c.Major, uint64(len(c.Data)), c.Width)
		buf.Write(c.Data)
	case 4, 5:
		n := uint64(len(c.Kids))
		if c.Major == 5 {
			n /= 2
		}
		if c.Indef {
			buf.WriteByte(c.Major<<5 | 31)
		} else {
			putHead(buf, c.Major, n, c.Width)
		}
		for _, k := range c.Kids {
			k.encode(buf)
		}
		if c.Indef {
			buf.WriteByte(0xff)
		}
	case 6:
		putHead(buf, 6, c.Arg, c.Width)
		c.Kids[0].encode(buf)
	case 7:
		switch c.Float {
		case 16:
			buf.WriteByte(0xf9)
			var b [2]byte
			binary.BigEndian.PutUint16(b[:], uint16(c.Arg))
			buf.Write(b[:])
		case 32:
			buf.WriteByte(0xfa)
			var b [4]byte
			binary.BigEndian.PutUint32(b[:], uint32(c.Arg))
			buf.Write(b[:])
		case 64:
			buf.WriteByte(0xfb)
			var b [8]byte
			binary.BigEndian.PutUint64(b[:], c.Arg)
			buf.Write(b[:])
		default:
			if c.Arg < 24 {
				buf.WriteByte(0xe0 | byte(c.Arg))
			} else {
				buf.WriteByte(0xf8)
				buf.WriteByte(byte(c.Arg))
			}
		}
	}
}

func (c *CB) Encode() []byte {
	var buf bytes.Buffer
	c.encode(&buf)
	return buf.Bytes()
}

// ----------------------------------------------------------------- decoding

var errCBORTrunc = errors.New("cborx: truncated")

type cbDec struct {
	b     []byte
	p     int
	depth int
}

func (d *cbDec) head() (major byte, info byte, arg uint64, width int, err error) {
	if d.p >= len(d.b) {
		return 0, 0, 0, 0, errCBORTrunc
	}
	ib := d.b[d.p]
	d.p++
	major, info = ib>>5, ib&31
	switch {
	case info < 24:
		return major, info, uint64(info), 0, nil
	case info == 24:
		if d.p+1 > len(d.b) {
			return 0, 0, 0, 0, errCBORTrunc
		}
		arg = uint64(d.b[d.p])
		d.p++
		return major, info, arg, 1, nil
	case info == 25:
		if d.p+2 > len(d.b) {
			return 0, 0, 0, 0, errCBORTrunc
		}
		arg = uint64(binary.BigEndian.Uint16(d.b[d.p:]))
		d.p += 2
		return major, info, arg, 2, nil
	case info == 26:
		if d.p+4 > len(d.b) {
			return 0, 0, 0, 0, errCBORTrunc
		}
		arg = uint64(binary.BigEndian.Uint32(d.b[d.p:]))
		d.p += 4
		return major, info, arg, 4, nil
	case info == 27:
		if d.p+8 > len(d.b) {
			return 0, 0, 0, 0, errCBORTrunc
		}
		arg = binary.BigEndian.Uint64(d.b[d.p:])
		d.p += 8
		return major, info, arg, 8, nil
	case info == 31:
		return major, info, 0, 0, nil
	}
	return 0, 0, 0, 0, fmt.Errorf("cborx: reserved additional info %d", info)
}

func minimalWidth(arg uint64) int {
	switch {
	case arg < 24:
		return 0
	case arg <= 0xff:
		return 1
	case arg <= 0xffff:
		return 2
	case arg <= 0xffffffff:
		return 4
	}
	return 8
}

func (d *cbDec) item() (*CB, error) {
	d.depth++
	defer func() { d.depth-- }()
	if d.depth > 4096 {
		return nil, errors.New("cborx: too deep")
	}
	off := d.p
	major, info, arg, width, err := d.head()
	if err != nil {
		return nil, err
	}
	c := &CB{Major: major, Arg: arg, Off: off}
	if width != minimalWidth(arg) {
		c.Width = width
	}
	switch major {
	case 0, 1:
		if info == 31 {
			return nil, errors.New("cborx: indefinite integer")
		}
	case 2, 3:
		if info == 31 {
			c.Indef = true
			c.Arg = 0
			for {
				if d.p >= len(d.b) {
					return nil, errCBORTrunc
				}
				if d.b[d.p] == 0xff {
					d.p++
					break
				}
				m2, i2, a2, _, err := d.head()
				if err != nil {
					return nil, err
				}
				if m2 != major || i2 == 31 {
					return nil, errors.New("cborx: bad chunk")
				}
				if uint64(len(d.b)-d.p) < a2 {
					return nil, errCBORTrunc
				}
				c.Data = append(c.Data, d.b[d.p:d.p+int(a2)]...)
				d.p += int(a2)
			}
			if c.Data == nil {
				c.Data = []byte{}
			}
		} else {
			if uint64(len(d.b)-d.p) < arg {
				return nil, errCBORTrunc
			}
			c.Data = append([]byte{}, d.b[d.p:d.p+int(arg)]...)
			d.p += int(arg)
		}
	case 4, 5:
		n := arg
		if major == 5 {
			n *= 2
		}
		if info == 31 {
			c.Indef = true
			c.Arg = 0
			for {
				if d.p >= len(d.b) {
					return nil, errCBORTrunc
				}
				if d.b[d.p] == 0xff {
					d.p++
					break
				}
				k, err := d.item()
				if err != nil {
					return nil, err
				}
				c.Kids = append(c.Kids, k)
			}
			if major == 5 && len(c.Kids)%2 != 0 {
				return nil, errors.New("cborx: odd map")
			}
		} else {
			if n > uint64(len(d.b)-d.p) {
				return nil, errCBORTrunc
			}
			for i := uint64(0); i < n; i++ {
				k, err := d.item()
				if err != nil {
					return nil, err
				}
				c.Kids = append(c.Kids, k)
			}
		}
	case 6:
		if info == 31 {
			return nil, errors.New("cborx: indefinite tag")
		}
		k, err := d.item()
		if err != nil {
			return nil, err
		}
		c.Kids = []*CB{k}
	case 7:
		switch info {
		case 25:
			c.Float = 16
		case 26:
			c.Float = 32
		case 27:
			c.Float = 64
		case 31:
			return nil, errors.New("cborx: stray break")
		}
		c.Width = 0
	}
	c.End = d.p
	return c, nil
}

// cbDecode decodes exactly one item and reports how many bytes it used.
func cbDecode(b []byte) (*CB, int, error) {
	d := &cbDec{b: b}
	c, err := d.item()
	if err != nil {
		return nil, 0, err
	}
	return c, d.p, nil
}

// cbDecodeAll decodes one item that must span the whole input.
func cbDecodeAll(b []byte) (*CB, error) {
	c, n, err := cbDecode(b)
	if err != nil {
		return nil, err
	}
	if n != len(b) {
		return nil, errors.New("cborx: trailing bytes")
	}
	return c, nil
}

// ----------------------------------------------------------------- CIDs

// harnessCID computes the binary CIDv1(dag-cbor, sha2-256) of data with the
// harness's own arithmetic.
func harnessCID(data []byte) []byte {
	h := sha256.Sum256(data)
	return append([]byte{0x01, 0x71, 0x12, 0x20}, h[:]...)
}

func cidHex(c []byte) string { return fmt.Sprintf("%x", c) }
