package sim

import (
	"encoding/json"
	"fmt"
	"sort"
	"strings"
)

// Plan generator of the `world` scenario (swarm style: sizes, key algorithms,
// fault kinds, deviation kinds and workload mix are drawn per run).

var cmdSegments = []string{"a", "ab", "abc", "b", "bc", "c", "foo", "foobar", "s", "\u017f", "\u03bb\u03bf\u03b3\u03bf\u03c2", "\u03bb\u03bf\u03b3\u03bf\u03c3", "\u00e9", "e\u0301", "i", "\u0131",
	"x-1", "a_b", "v1.2", "%41", "007", "a.b", "~", "seg-that-is-seventy-characters-long-0123456789-0123456789-0123456789-012"}

// cmdAlike: pairs of different lower-case segments that compare equal under Unicode case
// folding or normalisation (long s / s, final sigma / sigma, NFC / NFD e-acute, dotless i / i).
// They are different segments: neither command covers the other.
var cmdAlike = map[string]string{"s": "\u017f", "\u017f": "s", "\u03bb\u03bf\u03b3\u03bf\u03c2": "\u03bb\u03bf\u03b3\u03bf\u03c3", "\u03bb\u03bf\u03b3\u03bf\u03c3": "\u03bb\u03bf\u03b3\u03bf\u03c2",
	"\u00e9": "e\u0301", "e\u0301": "\u00e9", "i": "\u0131", "\u0131": "i"}

// spot is the "spotlight" of the run being generated: one deliberately designed situation that
// every fourth run (by run index) is made to contain for certain, instead of leaving it to the
// odds of the swarm configuration; "" = none. Which situations are taken in turn depends on the
// property the batch is focused on. (The generator is single-threaded per process.)
var spot string

var spotlights = map[string][]string{
	"C01": {"swap-recheck", "other-invoker", "sibling-P", "inv-as-proof", "lookalike", "long-chain", "prov-dlg", "hook-twice", "rootless-after", "long-dev"},
	"C02": {"self-K", "sibling-K", "alike", "deep", "top-under-one", "long-chain", "reserved", "repeat-cmd", "rawcmd", "widen-back", "bad-utf8", "dup-proof", "seg-wrap"},
	"C03": {"uslice", "nullopt", "alias", "twin", "sibling-Q", "hook-null", "optional-and", "starstr", "same-selector", "second-args", "below-element", "hook-completes", "long-like", "many-stmts", "long-dev"},
	"C04": {"far-nbf", "sibling-W", "both-bounds", "unbounded-then-bad", "shared-option", "raw-nbf"},
	"C05": {"far-exp", "uslice", "prov-inv", "prov-dlg", "hook-twice", "long-chain", "reuse", "starstr", "repeat-cmd", "overlap-args", "churn", "second-args", "below-element", "map-order", "hook-completes", "many-stmts"},
	"C07": {"far-exp", "uslice", "nullopt"},
	"C09": {"inv-as-proof", "long-chain", "deep"},
	"":    {"swap-recheck", "other-invoker", "self-K", "sibling-K", "uslice", "nullopt", "alias", "twin", "far-nbf", "far-exp", "inv-as-proof", "sibling-W"},
}

// spotWant: a situation is taken if it is this run's spotlight, otherwise with probability p.
func spotWant(r *Rand, name string, p float64) bool {
	if spot == name {
		r.Chance(p) // (keep the stream aligned)
		return true
	}
	return r.Chance(p)
}

// deepCommands lifts the depth limit of generated commands for the run being generated
// (set and reset by genWorld; the generator is single-threaded per process).
var deepCommands bool

type wgen struct {
	aliasPlan bool
	wantBuilt bool      // a check on the constructed objects (never decoded) is wanted after the main check
	aux       []InvSpec // auxiliary invocations that must exist (and reach the executor) before the main one
	r         *Rand
	g         GenCfg
	cast      []Principal
	steps     []WStep
	now       int64 // planned clock, ns after the epoch
	nd        int
	ni        int
	notes     []string
}

func pickAlg(r *Rand, tier string) string {
	rsa := 2
	if tier == "thorough" {
		rsa = 6
	}
	w := []int{60, 12, 12, 5, 5, rsa}
	return allAlgs[r.Weighted(w)]
}

func genCast(r *Rand, tier string, lo, hi int) []Principal {
	n := r.Range(lo, hi)
	used := map[Principal]bool{}
	var out []Principal
	// one run in twelve: every principal uses the same key algorithm
	mono := ""
	if r.Chance(0.085) {
		mono = Pick(r, allAlgs)
		if n > poolSize[mono] {
			n = poolSize[mono]
		}
	}
	for len(out) < n {
		alg := pickAlg(r, tier)
		if mono != "" {
			alg = mono
		}
		p := Principal{alg, r.Intn(poolSize[alg])}
		if used[p] {
			// take the next free key of that algorithm, or fall back to ed25519
			found := false
			for k := 0; k < poolSize[alg]; k++ {
				q := Principal{alg, k}
				if !used[q] {
					p, found = q, true
					break
				}
			}
			if !found {
				continue
			}
		}
		used[p] = true
		out = append(out, p)
	}
	return out
}

func (g *wgen) other(not ...int) int {
	for tries := 0; tries < 20; tries++ {
		p := g.r.Intn(len(g.cast))
		ok := true
		for _, n := range not {
			if n == p {
				ok = false
			}
		}
		if ok {
			return p
		}
	}
	return (not[0] + 1) % len(g.cast)
}

func (g *wgen) note(s string) { g.notes = append(g.notes, s) }

func extendCmd(r *Rand, c string) string {
	if n := len(cmdSegs(c)); n >= 5 && !(deepCommands && n < 40) {
		return c
	}
	if c != "/" && spotWant(r, "repeat-cmd", 0.04) && len(cmdSegs(c)) <= 3 {
		// the covering command's own segment sequence again, further down the covered one
		out := c + "/" + Pick(r, cmdSegments[:8]) + c
		if r.Chance(0.7) {
			out += "/" + Pick(r, cmdSegments[:8])
		}
		return out
	}
	s := Pick(r, cmdSegments)
	if r.Chance(0.06) {
		// an empty interior segment ("/a//b") is a valid command and a segment like any other
		s = "/" + s
	}
	if c == "/" {
		return "/" + s
	}
	return c + "/" + s
}

// notCovered returns a command that base does NOT cover, of the given kind.
func notCovered(r *Rand, base string) (string, string) {
	segs := cmdSegs(base)
	if len(segs) == 0 {
		return "", "" // top covers everything
	}
	last := segs[len(segs)-1]
	prefix := "/" + strings.Join(segs[:len(segs)-1], "/")
	if len(segs) == 1 {
		prefix = ""
	} else {
		prefix = "/" + strings.Join(segs[:len(segs)-1], "/")
	}
	kinds := []string{"parent", "sibling", "textprefix", "top", "emptyseg", "emptyseg"}
	kinds = append(kinds, "reserved")
	if spot == "reserved" {
		kinds = []string{"reserved"}
	}
	if cmdAlike[last] != "" {
		kinds = append(kinds, "alike", "alike", "alike")
		if spot == "alike" {
			kinds = []string{"alike"}
		}
	}
	switch Pick(r, kinds) {
	case "alike":
		return prefix + "/" + cmdAlike[last], "alike"
	case "reserved":
		return Pick(r, []string{"/ucan", "/ucan/revoke", "/ucan/" + last, "/ucan/a/b"}), "reserved"
	case "emptyseg":
		// the same command with one slash doubled: another segment list, neither covers the other
		if len(segs) >= 2 {
			i := 1 + r.Intn(len(segs)-1)
			return "/" + strings.Join(segs[:i], "/") + "//" + strings.Join(segs[i:], "/"), "emptyseg"
		}
		return "//" + strings.Join(segs, "/"), "emptyseg"
	case "parent":
		if len(segs) == 1 {
			return "/", "top"
		}
		return prefix, "parent"
	case "top":
		return "/", "top"
	case "textprefix":
		switch last {
		case "a":
			return prefix + "/ab", "textprefix"
		case "b":
			return prefix + "/bc", "textprefix"
		case "ab":
			return prefix + Pick(r, []string{"/a", "/abc"}), "textprefix"
		case "bc":
			return prefix + "/b", "textprefix"
		case "abc":
			return prefix + "/ab", "textprefix"
		case "foo":
			return prefix + "/foobar", "textprefix"
		case "foobar":
			return prefix + "/foo", "textprefix"
		}
		fallthrough
	default:
		for {
			s := Pick(r, cmdSegments)
			if s != last {
				return prefix + "/" + s, "sibling"
			}
		}
	}
}

// ---- arguments and policies

func genArgs(r *Rand) []KV {
	var out []KV
	if r.Chance(0.85) {
		out = append(out, KV{"n", vInt(int64(r.Range(-50, 50)))})
	}
	if r.Chance(0.6) {
		out = append(out, KV{"s", vStr(randWord(r, 0, 6))})
	}
	if r.Chance(0.4) {
		n := r.Range(0, 4)
		l := make([]Val, n)
		for i := range l {
			l[i] = vInt(int64(r.Range(0, 20)))
		}
		out = append(out, KV{"l", Val{K: "list", L: l}})
	}
	if spotWant(r, "nullopt", 0.35) || spot == "map-order" {
		m := vMap(KV{"x", vInt(int64(r.Range(0, 9)))}, KV{"y", vStr(randWord(r, 1, 4))})
		if spotWant(r, "nullopt", 0.3) {
			// a field that is present and holds an explicit null
			m.M = append(m.M, KV{"z", vNull()})
		}
		if spotWant(r, "map-order", 0.3) {
			// keys of different lengths: a map built in memory lists them alphabetically (kk, x, y),
			// the same map read from DAG-CBOR shortest first (x, y, kk) - the same map
			m.M = append(m.M, KV{"kk", vInt(int64(r.Range(0, 9)))})
		}
		out = append(out, KV{"m", m})
	}
	if r.Chance(0.25) {
		out = append(out, KV{"f", vFloat(float64(r.Range(-20, 20)) + 0.5)})
	}
	if r.Chance(0.2) {
		out = append(out, KV{"b", vBool(r.Chance(0.5))})
	}
	if r.Chance(0.2) {
		out = append(out, KV{"bin", vBytes(r.Bytes(r.Range(1, 24)))})
	}
	if spotWant(r, "starstr", 0.2) {
		// a string that itself holds the characters the pattern language gives a meaning to
		n := r.Range(1, 6)
		b := make([]byte, n)
		for i := range b {
			b[i] = "ab**\\"[r.Intn(5)]
		}
		out = append(out, KV{"g", vStr(string(b))})
	}
	if spotWant(r, "uslice", 0.25) || spot == "second-args" {
		// a string with characters of 1, 2, 3 and 4 UTF-8 bytes (slices count characters)
		alphabet := []rune("ab\u00e9\u00fc\u65e5\u672c\U0001d11ez.")
		n := r.Range(0, 9)
		if spot == "uslice" || spot == "second-args" {
			n = r.Range(4, 9)
			alphabet = alphabet[2:7] // multi-byte characters only
		}
		rs := make([]rune, n)
		for i := range rs {
			rs[i] = alphabet[r.Intn(len(alphabet))]
		}
		out = append(out, KV{"u", vStr(string(rs))})
	}
	if spotWant(r, "below-element", 0.15) {
		// a list of [name, number] pairs (statements that look BELOW the element of a quantifier)
		n := r.Range(1, 4)
		l := make([]Val, n)
		for i := range l {
			l[i] = vList(vStr(fmt.Sprintf("k%d", i)), vInt(int64(r.Range(0, 9))))
		}
		out = append(out, KV{"pairs", Val{K: "list", L: l}})
	}
	if r.Chance(0.2) {
		// a list of records, some of which lack the field x (optional selectors under all)
		n := r.Range(1, 4)
		l := make([]Val, n)
		for i := range l {
			if r.Chance(0.4) {
				l[i] = vMap(KV{"y", vStr(randWord(r, 1, 3))})
			} else {
				l[i] = vMap(KV{"x", vInt(int64(r.Range(0, 9)))})
			}
		}
		out = append(out, KV{"rec", Val{K: "list", L: l}})
		if spotWant(r, "same-selector", 0.5) {
			// a top-level field of the same name as the field of the records
			out = append(out, KV{"x", vInt(int64(r.Range(0, 9)))})
		}
	}
	if r.Chance(0.1) {
		out = append(out, KV{"big", vInt([]int64{9007199254740991, -9007199254740991, 4294967296}[r.Intn(3)])})
	}
	// insertion order is part of the input space
	p := r.Perm(len(out))
	sh := make([]KV, len(out))
	for i, j := range p {
		sh[i] = out[j]
	}
	return sh
}

func randWord(r *Rand, lo, hi int) string {
	n := r.Range(lo, hi)
	b := make([]byte, n)
	for i := range b {
		b[i] = "abcxyz"[r.Intn(6)]
	}
	return string(b)
}

func isLowerAlpha(s string) bool {
	for i := 0; i < len(s); i++ {
		if s[i] < 'a' || s[i] > 'z' {
			return false
		}
	}
	return true
}

func ptr[T any](v T) *T { return &v }

// globLit writes a string as a pattern that stands for exactly that string.
func globLit(s string) string {
	return strings.NewReplacer("\\", "\\\\", "*", "\\*").Replace(s)
}

func likePattern(r *Rand, s string, match bool) string {
	if match {
		// replace a random substring by *
		if len(s) == 0 {
			return Pick(r, []string{"", "*", "**"})
		}
		i := r.Intn(len(s) + 1)
		j := i + r.Intn(len(s)-i+1)
		p := globLit(s[:i]) + "*" + globLit(s[j:])
		if r.Chance(0.3) {
			p = "*" + p
		}
		if r.Chance(0.2) {
			return globLit(s)
		}
		return p
	}
	// a pattern that does not match: the exact pattern of a NEIGHBOUR of s (one backslash or star
	// more or less), or require a letter that is not in the alphabet of s
	if strings.ContainsAny(s, "*\\") || r.Chance(0.15) {
		nb := s
		switch r.Intn(4) {
		case 0:
			nb = "\\" + s
		case 1:
			i := r.Intn(len(s) + 1)
			nb = s[:i] + Pick(r, []string{"\\", "*"}) + s[i:]
		case 2:
			if i := strings.IndexAny(s, "*\\"); i >= 0 {
				nb = s[:i] + s[i+1:]
			}
		default:
			nb = strings.NewReplacer("\\", "", "*", "").Replace(s) + "\\"
		}
		if nb != s {
			return globLit(nb)
		}
	}
	if len(s) >= 2 && r.Chance(0.35) {
		// one star between a prefix and a suffix of s that OVERLAP in s (ab*ba against aba): s
		// starts with the one and ends with the other and is still too short to match
		i := 1 + r.Intn(len(s)-1) // prefix s[:i], 1 <= i < len
		j := r.Intn(i)            // suffix s[j:], j < i
		if p := globLit(s[:i]) + "*" + globLit(s[j:]); !globModel(p, s) {
			return p
		}
	}
	switch r.Intn(3) {
	case 0:
		return globLit(s) + "q"
	case 1:
		return "q*" + globLit(s)
	default:
		return "*q*"
	}
}

// genStmt produces a statement over existing arguments with the wanted truth
// value. Only top-level false statements may use a definitely absent path.
func genStmt(r *Rand, a []KV, want bool, depth int, top bool) Stmt {
	st := genStmt0(r, a, want, depth, top)
	switch st.Op {
	case "==", "<", "<=", ">", ">=", "like":
		// an optional selector over a value that IS there binds like a plain one
		if top && len(st.Sel) > 1 && !strings.ContainsAny(st.Sel, "[?") && r.Chance(0.2) {
			st.Sel += "?"
		}
	}
	return st
}

func genStmt0(r *Rand, a []KV, want bool, depth int, top bool) Stmt {
	if len(a) == 0 {
		if want {
			// vacuous truth over no arguments: not(absent == 1) would lean on missing-data rules; use an and of nothing is excluded too.
			// Fall back to a statement about a path that cannot exist, negated at top level is also excluded; so signal "no statement".
			return Stmt{Op: "nop"}
		}
		return Stmt{Op: "==", Sel: ".zz", Val: ptr(vInt(1))}
	}
	if depth < 2 && (r.Chance(0.25) || (spot == "optional-and" && depth == 0 && top)) {
		which := r.Intn(3)
		if spot == "optional-and" && depth == 0 && top {
			which = 1
		}
		switch which {
		case 0:
			return Stmt{Op: "not", Kids: []Stmt{genStmt(r, a, !want, depth+1, false)}}
		case 1: // and
			n := r.Range(1, 3)
			kids := make([]Stmt, n)
			// top stays set through "and": its operands are still in a positive context
			// (no not/or above them), where a missing path has an indisputable reading
			for i := range kids {
				kids[i] = genStmt(r, a, true, depth+1, top)
				if top && spotWant(r, "optional-and", 0.3) {
					// an operand over a missing optional value: says nothing, the others still bind
					kids[i] = Stmt{Op: Pick(r, []string{"==", "<", "like"}), Sel: Pick(r, []string{".zz?", ".m.zz?", ".yy?"}), Val: ptr(vInt(int64(r.Range(0, 5)))), Pat: "a*"}
				}
			}
			if !want {
				kids[r.Intn(n)] = genStmt(r, a, false, depth+1, top)
			}
			return Stmt{Op: "and", Kids: kids}
		default: // or
			n := r.Range(1, 3)
			kids := make([]Stmt, n)
			for i := range kids {
				kids[i] = genStmt(r, a, false, depth+1, false)
			}
			if want {
				kids[r.Intn(n)] = genStmt(r, a, true, depth+1, false)
			}
			return Stmt{Op: "or", Kids: kids}
		}
	}
	if want && top && r.Chance(0.08) {
		// optional selector over a field that is not there: passes
		return Stmt{Op: Pick(r, []string{"==", "<", "like"}), Sel: Pick(r, []string{".zz?", ".m.zz?", ".yy?"}), Val: ptr(vInt(int64(r.Range(0, 5)))), Pat: "a*"}
	}
	if !want && top && r.Chance(0.15) {
		return Stmt{Op: Pick(r, []string{"==", "<", ">="}), Sel: Pick(r, []string{".zz", ".m.zz", ".zz.y"}), Val: ptr(vInt(int64(r.Range(0, 5))))}
	}
	kv := a[r.Intn(len(a))]
	if top && (spot == "map-order" || spot == "uslice" || spot == "nullopt" || spot == "starstr" || spot == "second-args" || spot == "below-element") {
		for _, x := range a {
			if ((spot == "uslice" || spot == "second-args") && x.Key == "u") || ((spot == "nullopt" || spot == "map-order") && x.Key == "m") || (spot == "below-element" && x.Key == "pairs") || (spot == "starstr" && x.Key == "g") {
				kv = x
			}
		}
	}
	sel := "." + kv.Key
	v := kv.V
	switch v.K {
	case "int":
		n := v.I
		d := int64(r.Range(1, 10))
		type c struct {
			op  string
			val int64
		}
		var tr, fa []c
		tr = []c{{"==", n}, {"<", n + d}, {"<=", n}, {"<=", n + d}, {">", n - d}, {">=", n}, {">=", n - d}}
		fa = []c{{"==", n + d}, {"==", n - d}, {"<", n}, {"<", n - d}, {"<=", n - d}, {">", n}, {">", n + d}, {">=", n + d}}
		x := Pick(r, tr)
		if !want {
			x = Pick(r, fa)
		}
		if x.val > 9007199254740991 || x.val < -9007199254740991 {
			x = c{"==", n}
			if !want {
				x = c{"==", 0}
			}
		}
		return Stmt{Op: x.op, Sel: sel, Val: ptr(vInt(x.val))}
	case "float":
		f := v.F
		if want {
			return Pick(r, []Stmt{{Op: "==", Sel: sel, Val: ptr(vFloat(f))}, {Op: "<", Sel: sel, Val: ptr(vFloat(f + 1.25))}, {Op: ">=", Sel: sel, Val: ptr(vFloat(f))}})
		}
		return Pick(r, []Stmt{{Op: "==", Sel: sel, Val: ptr(vFloat(f + 1))}, {Op: ">", Sel: sel, Val: ptr(vFloat(f))}, {Op: "<=", Sel: sel, Val: ptr(vFloat(f - 0.25))},
			{Op: "==", Sel: sel, Val: ptr(vInt(int64(f)))}})
	case "str":
		if nr := len([]rune(v.S)); r.Chance(0.45) || (kv.Key == "u" && (spotWant(r, "uslice", 0.6) || spot == "second-args")) {
			// a slice of the string, by characters: prefix, suffix (negative start), window,
			// bounds beyond the end (clamped)
			a, b := r.Range(0, nr), r.Range(0, nr)
			if a > b {
				a, b = b, a
			}
			form := Pick(r, []string{
				fmt.Sprintf("[%d:][:%d]", a, b-a), fmt.Sprintf("[:%d][%d:]", b, a), fmt.Sprintf("[%d:][:-%d]", a, nr-b+1), fmt.Sprintf("[-%d:][%d:%d]", nr, a, b),
				fmt.Sprintf("[%d:%d]", a, b), fmt.Sprintf("[%d:]", a), fmt.Sprintf("[:%d]", b),
				fmt.Sprintf("[-%d:]", nr-a), fmt.Sprintf("[%d:-%d]", a, nr-b+1), fmt.Sprintf("[-%d:-%d]", nr-a+1, nr-b+1),
				fmt.Sprintf("[%d:%d]", a, nr+3), fmt.Sprintf("[-%d:]", nr+2),
			})
			got, ok := resolveSel(sel+form, Val{K: "map", M: []KV{kv}})
			if ok && got.K == "str" {
				if want {
					return Stmt{Op: "==", Sel: sel + form, Val: ptr(got)}
				}
				return Stmt{Op: "==", Sel: sel + form, Val: ptr(vStr(got.S + Pick(r, []string{"q", "\u00e9", "."})))}
			}
		}
		if (r.Chance(0.5) && isLowerAlpha(v.S)) || (kv.Key == "g" && spotWant(r, "starstr", 0.8)) {
			return Stmt{Op: "like", Sel: sel, Pat: likePattern(r, v.S, want)}
		}
		if want {
			return Stmt{Op: "==", Sel: sel, Val: ptr(vStr(v.S))}
		}
		return Stmt{Op: "==", Sel: sel, Val: ptr(vStr(v.S + "q"))}
	case "bool":
		return Stmt{Op: "==", Sel: sel, Val: ptr(vBool(v.B == want))}
	case "list":
		if len(v.L) > 0 && v.L[0].K == "list" && len(v.L[0].L) == 2 {
			// pairs: the inner statement selects below the element, by index, from the end, by slice
			e := v.L[r.Intn(len(v.L))]
			k, n := e.L[0], e.L[1]
			if want {
				return Pick(r, []Stmt{
					{Op: "any", Sel: sel, Kids: []Stmt{{Op: "==", Sel: ".[0]", Val: ptr(k)}}},
					{Op: "any", Sel: sel, Kids: []Stmt{{Op: "==", Sel: ".[-1]", Val: ptr(n)}}},
					{Op: "any", Sel: sel, Kids: []Stmt{{Op: "==", Sel: ".[1]", Val: ptr(n)}}},
					{Op: "any", Sel: sel, Kids: []Stmt{{Op: "==", Sel: ".[0:1]", Val: ptr(vList(k))}}},
					{Op: "any", Sel: sel, Kids: []Stmt{{Op: "and", Kids: []Stmt{{Op: "==", Sel: ".[0]", Val: ptr(k)}, {Op: "<=", Sel: ".[1]", Val: ptr(n)}}}}},
					{Op: "all", Sel: sel, Kids: []Stmt{{Op: "like", Sel: ".[0]", Pat: "k*"}}},
					{Op: "all", Sel: sel, Kids: []Stmt{{Op: ">=", Sel: ".[1]", Val: ptr(vInt(0))}}},
				})
			}
			return Pick(r, []Stmt{
				{Op: "any", Sel: sel, Kids: []Stmt{{Op: "==", Sel: ".[0]", Val: ptr(vStr("nokey"))}}},
				{Op: "any", Sel: sel, Kids: []Stmt{{Op: "==", Sel: ".[-1]", Val: ptr(vInt(n.I + 100))}}},
				{Op: "any", Sel: sel, Kids: []Stmt{{Op: "==", Sel: ".[0:1]", Val: ptr(k)}}},
				{Op: "all", Sel: sel, Kids: []Stmt{{Op: "like", Sel: ".[0]", Pat: "z*"}}},
				{Op: "all", Sel: sel, Kids: []Stmt{{Op: "<", Sel: ".[1]", Val: ptr(vInt(0))}}},
			})
		}
		if len(v.L) > 0 && v.L[0].K == "map" {
			// records: elements without x say nothing under ".x?", the others must satisfy the statement
			have := false
			var lo, hi int64
			for _, e := range v.L {
				if x, ok := e.get("x"); ok {
					if !have || x.I < lo {
						lo = x.I
					}
					if !have || x.I > hi {
						hi = x.I
					}
					have = true
				}
			}
			if want || !have || !top {
				st := Pick(r, []Stmt{
					{Op: "all", Sel: sel, Kids: []Stmt{{Op: ">=", Sel: ".x?", Val: ptr(vInt(lo))}}},
					{Op: "all", Sel: sel, Kids: []Stmt{{Op: "<", Sel: ".x?", Val: ptr(vInt(hi + 1))}}},
				})
				if !top || !want {
					// under not/or only statements whose every path resolves
					st = Stmt{Op: "==", Sel: sel, Val: ptr(v)}
					if !want {
						st = Stmt{Op: "==", Sel: sel, Val: ptr(Val{K: "list", L: append(append([]Val{}, v.L...), vInt(0))})}
					}
				}
				return st
			}
			return Pick(r, []Stmt{
				{Op: "all", Sel: sel, Kids: []Stmt{{Op: ">", Sel: ".x?", Val: ptr(vInt(hi))}}},
				{Op: "all", Sel: sel, Kids: []Stmt{{Op: "<", Sel: ".x?", Val: ptr(vInt(lo))}}},
				{Op: "all", Sel: sel, Kids: []Stmt{{Op: "==", Sel: ".x?", Val: ptr(vInt(hi + 1))}}},
			})
		}
		if len(v.L) == 0 {
			if want {
				return Stmt{Op: "all", Sel: sel, Kids: []Stmt{{Op: ">", Sel: ".", Val: ptr(vInt(100))}}}
			}
			return Stmt{Op: "any", Sel: sel, Kids: []Stmt{{Op: ">=", Sel: ".", Val: ptr(vInt(0))}}}
		}
		min, max := v.L[0].I, v.L[0].I
		for _, e := range v.L {
			if e.I < min {
				min = e.I
			}
			if e.I > max {
				max = e.I
			}
		}
		e := v.L[r.Intn(len(v.L))].I
		if r.Chance(0.35) {
			n := len(v.L)
			i := r.Intn(n)
			a, b := r.Range(0, n), r.Range(0, n)
			if a > b {
				a, b = b, a
			}
			form := Pick(r, []string{fmt.Sprintf("[%d]", i), fmt.Sprintf("[-%d]", n-i), fmt.Sprintf("[%d:%d]", a, b), fmt.Sprintf("[-%d:]", n-a), fmt.Sprintf("[:%d]", b), fmt.Sprintf("[%d:%d]", a, n+2),
				fmt.Sprintf("[%d:][:%d]", a, b-a), fmt.Sprintf("[:%d][%d:]", b, a), fmt.Sprintf("[%d:][0]", a), fmt.Sprintf("[:%d][-1]", b)})
			got, ok := resolveSel(sel+form, Val{K: "map", M: []KV{kv}})
			if ok && got.K == "int" {
				if want {
					return Pick(r, []Stmt{{Op: "==", Sel: sel + form, Val: ptr(got)}, {Op: "<=", Sel: sel + form, Val: ptr(got)}, {Op: ">", Sel: sel + form, Val: ptr(vInt(got.I - 1))}})
				}
				return Pick(r, []Stmt{{Op: "==", Sel: sel + form, Val: ptr(vInt(got.I + 1))}, {Op: "<", Sel: sel + form, Val: ptr(got)}, {Op: ">", Sel: sel + form, Val: ptr(got)}})
			}
			if ok && got.K == "list" {
				if want {
					return Stmt{Op: "==", Sel: sel + form, Val: ptr(got)}
				}
				return Stmt{Op: "==", Sel: sel + form, Val: ptr(Val{K: "list", L: append(append([]Val{}, got.L...), vInt(77))})}
			}
		}
		if want {
			return Pick(r, []Stmt{
				{Op: "all", Sel: sel, Kids: []Stmt{{Op: ">=", Sel: ".", Val: ptr(vInt(min))}}},
				{Op: "all", Sel: sel, Kids: []Stmt{{Op: "<", Sel: ".", Val: ptr(vInt(max + 1))}}},
				{Op: "any", Sel: sel, Kids: []Stmt{{Op: "==", Sel: ".", Val: ptr(vInt(e))}}},
				{Op: "==", Sel: sel, Val: ptr(v)},
			})
		}
		return Pick(r, []Stmt{
			{Op: "all", Sel: sel, Kids: []Stmt{{Op: ">", Sel: ".", Val: ptr(vInt(min))}}},
			{Op: "any", Sel: sel, Kids: []Stmt{{Op: ">", Sel: ".", Val: ptr(vInt(max))}}},
			{Op: "any", Sel: sel, Kids: []Stmt{{Op: "==", Sel: ".", Val: ptr(vInt(max + 1))}}},
			{Op: "==", Sel: sel, Val: ptr(Val{K: "list", L: append(append([]Val{}, v.L...), vInt(0))})},
		})
	case "bytes":
		// a byte string: compared whole, indexed (each byte is an integer; negative indexes count
		// from the end), sliced
		if n := len(v.X); n > 0 && r.Chance(0.7) {
			i := r.Intn(n)
			form := Pick(r, []string{fmt.Sprintf("[%d]", i), fmt.Sprintf("[-%d]", n-i), "[-1]", fmt.Sprintf("[%d:]", i), fmt.Sprintf("[-%d:]", n-i), fmt.Sprintf("[:%d]", i+1)})
			if got, ok := resolveSel(sel+form, Val{K: "map", M: []KV{kv}}); ok {
				switch got.K {
				case "int":
					if want {
						return Pick(r, []Stmt{{Op: "==", Sel: sel + form, Val: ptr(got)}, {Op: ">=", Sel: sel + form, Val: ptr(got)}, {Op: "<", Sel: sel + form, Val: ptr(vInt(got.I + 1))}})
					}
					return Pick(r, []Stmt{{Op: "==", Sel: sel + form, Val: ptr(vInt(got.I + 1))}, {Op: ">", Sel: sel + form, Val: ptr(got)}})
				case "bytes":
					if want {
						return Stmt{Op: "==", Sel: sel + form, Val: ptr(got)}
					}
					return Stmt{Op: "==", Sel: sel + form, Val: ptr(vBytes(append(append([]byte{}, got.X...), 7)))}
				}
			}
		}
		if want {
			return Stmt{Op: "==", Sel: sel, Val: ptr(v)}
		}
		return Stmt{Op: "==", Sel: sel, Val: ptr(vBytes(append(append([]byte{}, v.X...), 0)))}
	case "map":
		x, _ := v.get("x")
		y, _ := v.get("y")
		if z, ok := v.get("z"); ok && z.K == "null" && top && spotWant(r, "nullopt", 0.5) {
			// null is a value: it is there, it equals null and nothing else, it is not ordered
			if want {
				return Stmt{Op: "==", Sel: sel + Pick(r, []string{".z", ".z?"}), Val: ptr(vNull())}
			}
			return Pick(r, []Stmt{
				{Op: "==", Sel: sel + ".z?", Val: ptr(vInt(1))},
				{Op: "==", Sel: sel + ".z?", Val: ptr(vStr("user"))},
				{Op: "<=", Sel: sel + ".z?", Val: ptr(vInt(10))},
				{Op: "like", Sel: sel + ".z?", Pat: "*"},
				{Op: "==", Sel: sel + ".z", Val: ptr(vBool(false))},
			})
		}
		if want && spot == "map-order" && top {
			return Stmt{Op: "==", Sel: sel, Val: ptr(v)}
		}
		if want {
			return Pick(r, []Stmt{
				{Op: "==", Sel: sel + ".x", Val: ptr(x)},
				{Op: "<=", Sel: sel + ".x", Val: ptr(vInt(x.I + 1))},
				{Op: "like", Sel: sel + ".y", Pat: likePattern(r, y.S, true)},
				{Op: "==", Sel: sel, Val: ptr(v)},
			})
		}
		return Pick(r, []Stmt{
			{Op: "==", Sel: sel + ".x", Val: ptr(vInt(x.I + 1))},
			{Op: ">", Sel: sel + ".x", Val: ptr(vInt(x.I))},
			{Op: "like", Sel: sel + ".y", Pat: likePattern(r, y.S, false)},
			{Op: "==", Sel: sel, Val: ptr(vMap(KV{"x", x}))},
		})
	}
	return Stmt{Op: "==", Sel: sel, Val: ptr(v)}
}

func genPolicy(r *Rand, a []KV, n int) []Stmt {
	var out []Stmt
	for i := 0; i < n; i++ {
		s := genStmt(r, a, true, 0, true)
		if s.Op != "nop" {
			out = append(out, s)
		}
	}
	return out
}

func genMeta(r *Rand) []MetaSpec {
	var out []MetaSpec
	if r.Chance(0.3) {
		out = append(out, MetaSpec{Key: "note", V: ptr(vStr(randWord(r, 0, 8)))})
	}
	if r.Chance(0.15) {
		out = append(out, MetaSpec{Key: "cnt", V: ptr(vInt(int64(r.Range(-5, 500))))})
	}
	if r.Chance(0.1) {
		// an IPLD link (a CID) as a value, alone or inside a list
		l := Val{K: "link", X: harnessCID([]byte(randWord(r, 1, 6)))}
		if r.Chance(0.4) {
			out = append(out, MetaSpec{Key: "refs", V: ptr(vList(vStr("see"), l))})
		} else {
			out = append(out, MetaSpec{Key: "ref", V: ptr(l)})
		}
	}
	if r.Chance(0.12) {
		k := r.Bytes(32)
		k[0] |= 1
		out = append(out, MetaSpec{Key: "secret", Secret: []byte(randWord(r, 0, 40)), EncKey: k, AsStr: r.Chance(0.5)})
	}
	return out
}

func pickNonceLen(r *Rand) int {
	return []int{0, 0, 0, 0, 12, 13, 16, 32, 5, 11}[r.Intn(10)]
}

// ---- chain construction

type chain struct {
	subject int
	holders []int     // holders[0] = root issuer, holders[n] = invoker
	dlgs    []DlgSpec // root -> leaf
	inv     InvSpec
}

func (g *wgen) newDlgLabel() string { g.nd++; return fmt.Sprintf("d%d", g.nd) }
func (g *wgen) newInvLabel() string { g.ni++; return fmt.Sprintf("i%d", g.ni) }

// buildChain creates a rule-conforming chain for the check instant tcSec.
func (g *wgen) buildChain(n int, tcSec int64, args []KV) *chain {
	r := g.r
	c := &chain{subject: r.Intn(len(g.cast))}
	c.holders = []int{c.subject}
	for i := 0; i < n; i++ {
		switch {
		case r.Chance(0.12): // self-delegation
			c.holders = append(c.holders, c.holders[len(c.holders)-1])
		case r.Chance(0.2) && len(c.holders) >= 2: // A -> B -> A
			c.holders = append(c.holders, c.holders[len(c.holders)-2])
		default:
			c.holders = append(c.holders, r.Intn(len(g.cast)))
		}
	}
	if spot == "self-K" && n >= 2 {
		i := 1 + r.Intn(n-1) // link i is issued by and to the same principal
		c.holders[i+1] = c.holders[i]
	}
	cmd := "/"
	for i := r.Intn(3); i > 0; i-- {
		cmd = extendCmd(r, cmd)
	}
	switch spot {
	case "alike":
		cmd = "/" + Pick(r, []string{"s", "\u03bb\u03bf\u03b3\u03bf\u03c2", "\u00e9", "i"})
	case "top-under-one":
		cmd = "/"
	}
	if deepCommands {
		for i := r.Range(6, 30); i > 0; i-- {
			cmd = extendCmd(r, cmd)
		}
	}
	polBudget := r.Range(0, 4)
	for k := 0; k < n; k++ {
		if k > 0 && r.Chance(0.4) {
			cmd = extendCmd(r, cmd)
		}
		d := DlgSpec{Label: g.newDlgLabel(), Iss: c.holders[k], Aud: c.holders[k+1], Sub: c.subject, Cmd: cmd}
		if k == 0 && r.Chance(0.5) {
			d.UseRoot = true
		}
		if polBudget > 0 && r.Chance(0.6) {
			m := r.Range(1, polBudget)
			d.Pol = genPolicy(r, args, m)
			d.PolSpare = r.Chance(0.3)
			polBudget -= m
		}
		g.bounds(&d.Nbf, &d.Exp, tcSec)
		if r.Chance(0.15) {
			d.SubMilli = int64(r.Range(1, 999))
		}
		d.NonceLen = []int{0, 0, 0, 12, 16, 32, 64, 255, 256}[r.Intn(9)]
		d.Meta = genMeta(r)
		c.dlgs = append(c.dlgs, d)
	}
	icmd := cmd
	if r.Chance(0.5) {
		icmd = extendCmd(r, icmd)
	}
	c.inv = InvSpec{Label: g.newInvLabel(), Iss: c.holders[n], Sub: c.subject, Aud: -1, Cmd: icmd, Args: args}
	for k := n - 1; k >= 0; k-- {
		c.inv.Prf = append(c.inv.Prf, c.dlgs[k].Label)
	}
	if r.Chance(0.4) {
		var none *int64
		g.bounds(&none, &c.inv.Exp, tcSec)
	}
	c.inv.Iat = []string{"", "", "none", "past", "future", "zero", "epoch", "y2300"}[r.Intn(8)]
	c.inv.NonceLen = []int{0, 0, 0, 12, 16, 32, 64, 255, 256, 70000, -1}[r.Intn(11)]
	c.inv.ArgsVia = Pick(r, []string{"", "", "args", "builder", "include", "split", "overlap"})
	if spot == "overlap-args" {
		c.inv.ArgsVia = "overlap"
	}
	c.inv.Meta = genMeta(r)
	c.inv.Cause = r.Chance(0.2)
	return c
}

// buildReuseChain: a conforming chain in which ONE sealed delegation serves two links
// (S->A root, A->B, B->A, A->B again; or a self-delegation of the subject taken twice).
func (g *wgen) buildReuseChain(tcSec int64, args []KV) *chain {
	r := g.r
	c := &chain{subject: r.Intn(len(g.cast))}
	cmd := "/"
	if r.Chance(0.5) {
		cmd = extendCmd(r, cmd)
	}
	mk := func(iss, aud int, pol int) DlgSpec {
		d := DlgSpec{Label: g.newDlgLabel(), Iss: iss, Aud: aud, Sub: c.subject, Cmd: cmd, NonceLen: 12}
		d.Pol = genPolicy(r, args, pol)
		g.bounds(&d.Nbf, &d.Exp, tcSec)
		return d
	}
	if r.Chance(0.4) {
		z := mk(c.subject, c.subject, r.Range(0, 2))
		c.dlgs = []DlgSpec{z}
		c.holders = []int{c.subject, c.subject, c.subject}
		c.inv = InvSpec{Label: g.newInvLabel(), Iss: c.subject, Sub: c.subject, Aud: -1, Cmd: cmd, Args: args, Prf: []string{z.Label, z.Label}}
		return c
	}
	a, b := g.other(c.subject), g.other(c.subject)
	root := mk(c.subject, a, 0)
	ab := mk(a, b, r.Range(0, 2))
	ba := mk(b, a, r.Range(0, 1))
	c.dlgs = []DlgSpec{root, ab, ba}
	c.holders = []int{c.subject, a, b, a, b}
	icmd := cmd
	if r.Chance(0.5) {
		icmd = extendCmd(r, cmd)
	}
	c.inv = InvSpec{Label: g.newInvLabel(), Iss: b, Sub: c.subject, Aud: -1, Cmd: icmd, Args: args, Prf: []string{ab.Label, ba.Label, ab.Label, root.Label}}
	return c
}

// bounds draws optional bounds that strictly contain tcSec.
func (g *wgen) bounds(nbf, exp **int64, tcSec int64) {
	r := g.r
	margins := []int64{1, 2, 60, 3600, 86400 * 400, 86400 * 365 * 30, 86400 * 365 * 200} // (a time.Duration spans 292 years: With…In cannot express more)
	if spotWant(r, "far-exp", 0.5) {
		*exp = ptr(tcSec + 1 + Pick(r, margins))
		if spotWant(r, "far-exp", 0.2) {
			// "never expires" as people write it: absolute instants centuries and millennia ahead
			*exp = ptr(Pick(r, farFuture) - simEpochUnix)
		}
	}
	if r.Chance(0.3) {
		v := tcSec - Pick(r, margins)
		if r.Chance(0.15) {
			// not-before at or around the unix epoch: long active
			v = Pick(r, []int64{0, 1, -1, -2208988800}) - simEpochUnix
		}
		*nbf = &v
	}
}

// farFuture: absolute Unix seconds far ahead: 2300, 3000, 9999-12-31, 1e11 (year 5138), 1e12,
// 1.5e12, and the largest second count a token may carry (2^53-1).
var farFuture = []int64{10413792000, 32503680000, 253402300799, 100000000000, 1000000000000, 1500000000000, 9007199254740991}

func (g *wgen) emit(s WStep) { g.steps = append(g.steps, s) }

func (g *wgen) tickTo(ns int64) {
	if ns > g.now {
		g.now = ns
		g.emit(WStep{Op: "tick", ToNS: ns})
	}
}

// issue emits the delegate / invoke steps, fixing the Relative flag where a
// bound is not in the future at issue time.
func (g *wgen) issueDlg(d DlgSpec) {
	nowSec := g.now / 1_000_000_000
	d.Relative = g.r.Chance(0.4)
	if (d.Exp != nil && *d.Exp <= nowSec+1) || (d.Nbf != nil && *d.Nbf <= nowSec+1) {
		d.Relative = true
	}
	if d.ShareOpt != "" {
		d.Relative = true
	}
	const span = 200 * 365 * 86400 // With...In takes a time.Duration: no more than ~292 years
	if (d.Exp != nil && *d.Exp-nowSec > span) || (d.Nbf != nil && *d.Nbf-nowSec > span) {
		d.Relative = false
	}
	g.emit(WStep{Op: "delegate", Dlg: &d})
}

func (g *wgen) issueInv(v InvSpec) {
	v.Relative = g.r.Chance(0.4)
	if v.Exp != nil && *v.Exp-g.now/1_000_000_000 > 200*365*86400 {
		v.Relative = false
	}
	g.emit(WStep{Op: "invoke", Inv: &v})
}

func (g *wgen) shipSpec(labels []string, faulty bool) *ShipSpec {
	r := g.r
	s := &ShipSpec{Labels: labels, Format: Pick(r, []string{"car", "cbor", "carb64", "cborb64"}), WStream: r.Chance(0.5), RStream: r.Chance(0.5)}
	if s.RStream && r.Chance(0.6) {
		for i := r.Range(1, 4); i > 0; i-- {
			s.Chunks = append(s.Chunks, Pick(r, []int{1, 2, 3, 7, 16, 64, 500, 0}))
		}
	}
	if r.Chance(0.5) {
		s.Perm = r.Perm(len(labels))
	}
	if faulty && r.Chance(0.3) {
		s.Fault = Pick(r, []string{"lost", "dup", "flip", "trunc", "relabel"})
		s.Entry = r.Intn(8)
		s.Bit = r.Intn(1 << 14)
		s.TruncMille = r.Range(1, 999)
	}
	return s
}

func genWorld(r *Rand, cfg GenCfg) Plan {
	g := &wgen{r: r, g: cfg}
	g.cast = genCast(r, cfg.Tier, 3, 7)
	focus := cfg.Focus
	spot = ""
	if cfg.Index%4 == 1 {
		l := spotlights[focus]
		if l == nil {
			l = spotlights[""]
		}
		spot = l[int(cfg.Index/4)%len(l)]
	}
	defer func() { spot = "" }()

	// --- time plan
	g.now = int64(r.Range(1, 1000)) * 1_000_000_000
	g.emit(WStep{Op: "tick", ToNS: g.now})
	gap := Pick(r, []int64{10, 3600, 86400 * 400, 86400 * 365 * 30})
	tcSec := g.now/1_000_000_000 + 20 + int64(r.Intn(int(min64(gap, 1<<30))))
	if gap > 1<<30 {
		tcSec += gap
	}
	tcNS := tcSec*1_000_000_000 + int64(r.Intn(1_000_000_000))
	if r.Chance(0.1) {
		tcNS = tcSec * 1_000_000_000 // exactly on a second
	}

	// --- main chain
	deepCommands = spotWant(r, "deep", 0.04)
	defer func() { deepCommands = false }()
	nLinks := []int{1, 1, 2, 2, 3, 3, 4, 5, 6, 8, 0}[r.Intn(11)]
	switch spot {
	case "alias", "self-K", "sibling-K", "sibling-P", "sibling-Q", "sibling-W", "unbounded-then-bad", "top-under-one", "twin", "shared-option", "dup-proof":
		if nLinks < 3 {
			nLinks = 3 + r.Intn(3)
		}
	case "swap-recheck", "other-invoker", "inv-as-proof", "lookalike", "hook-twice", "prov-dlg", "prov-inv":
		if nLinks < 1 {
			nLinks = 1 + r.Intn(4)
		}
	}
	if spot == "widen-back" {
		nLinks = []int{9, 10, 12, 16, 17, 24, 33}[r.Intn(7)]
	}
	if spot == "long-dev" {
		nLinks = []int{17, 18, 20, 33, 34, 40, 49}[r.Intn(7)]
	}
	if spot == "many-stmts" {
		nLinks = []int{1, 3, 10, 12}[r.Intn(4)]
	}
	if spot == "rootless-after" {
		// the top of a size class of small buffers (4, 8, 16, 32), so that the chain without its
		// root is one shorter in the same class
		nLinks = []int{4, 8, 4, 16, 3, 32, 5}[r.Intn(7)]
	}
	if spotWant(r, "long-chain", 0.03) {
		// beyond any small fixed capacity
		nLinks = []int{9, 12, 16, 17, 33, 65}[r.Intn(6)]
	}
	args := genArgs(r)
	c := g.buildChain(nLinks, tcSec, args)
	if spotWant(r, "reuse", 0.05) {
		c = g.buildReuseChain(tcSec, args)
	}

	// optional unrelated chain
	var foreign *chain
	if r.Chance(0.35) {
		foreign = g.buildChain(r.Range(1, 2), tcSec, args)
		foreign.inv.Cmd = c.inv.Cmd
	}

	// --- deviations
	conform := r.Chance(map[string]float64{"C05": 0.7, "C01": 0.3, "C02": 0.3, "C03": 0.3, "C04": 0.3}[focus] + 0.05)
	if focus == "" {
		conform = r.Chance(0.4)
	}
	forced := ""
	switch spot {
	case "swap-recheck", "other-invoker", "sibling-P", "sibling-K", "sibling-Q", "sibling-W", "prov-dlg", "prov-inv", "hook-twice", "far-exp", "reuse", "rootless-after", "second-args", "churn", "map-order", "hook-completes", "many-stmts":
		conform = true
	case "self-K", "alike", "top-under-one", "reserved", "rawcmd", "widen-back", "bad-utf8", "dup-proof", "seg-wrap":
		conform, forced = false, "K"
	case "repeat-cmd", "overlap-args", "shared-option":
		conform = true
	case "inv-as-proof", "lookalike":
		conform, forced = false, "P"
	case "long-dev":
		conform, forced = false, map[string]string{"C01": "P", "C03": "Q", "C04": "W"}[focus]
		if forced == "" {
			forced = "P"
		}
	case "alias", "twin", "hook-null", "optional-and", "same-selector", "long-like":
		conform, forced = false, "Q"
	case "far-nbf", "both-bounds", "unbounded-then-bad", "raw-nbf":
		conform, forced = false, "W"
	case "uslice", "nullopt", "starstr", "below-element":
		if focus == "C03" {
			conform, forced = false, "Q"
		} else {
			conform = true
		}
	}
	if spot == "many-stmts" && focus == "C03" {
		conform, forced = false, "Q" // one false statement among hundreds of true ones
	}
	notShipped := map[string]bool{}
	if !conform {
		nDev := []int{1, 1, 1, 2, 3}[r.Intn(5)]
		kinds := []string{"P", "K", "Q", "W"}
		w := []int{3, 2, 2, 2}
		switch focus {
		case "C01":
			w = []int{8, 1, 1, 1}
		case "C02":
			w = []int{1, 8, 1, 1}
		case "C03":
			w = []int{1, 1, 8, 1}
		case "C04":
			w = []int{1, 1, 1, 8}
		}
		if forced != "" {
			nDev = 1
		}
		for i := 0; i < nDev; i++ {
			kd := kinds[r.Weighted(w)]
			if forced != "" {
				kd = forced
			}
			switch kd {
			case "P":
				g.deviateP(c, foreign, notShipped)
			case "K":
				g.deviateK(c)
			case "Q":
				g.deviateQ(c)
			case "W":
				g.deviateW(c, tcSec)
			}
		}
	}

	// policies at scale: many statements per link, many links, a quantifier over a long list - all
	// of them true (for C03: then one false statement is put somewhere by the deviation above)
	if spot == "many-stmts" && len(c.dlgs) > 0 {
		per := 100
		switch {
		case len(c.dlgs) >= 10:
			per = Pick(r, []int{7, 30})
		case len(c.dlgs) >= 3:
			per = 30
		}
		for i := range c.dlgs {
			for j := 0; j < per; j++ {
				if st := genStmt(r, c.inv.Args, true, 0, true); st.Op != "nop" {
					c.dlgs[i].Pol = append(c.dlgs[i].Pol, st)
				}
			}
		}
		long := make([]Val, 70+r.Intn(200))
		for i := range long {
			long[i] = vInt(int64(i % 50))
		}
		c.inv.Args = append(c.inv.Args, KV{"longlist", Val{K: "list", L: long}})
		c.dlgs[0].Pol = append(c.dlgs[0].Pol, Stmt{Op: "all", Sel: ".longlist", Kids: []Stmt{{Op: ">=", Sel: ".", Val: ptr(vInt(0))}}})
		g.note("many-stmts")
	}

	// statements over an argument only the executor's hook supplies ("extra"): negated,
	// compared, ordered; without the hook they have nothing to look at
	hookCompletes := false
	if conform && len(c.dlgs) > 0 && spotWant(r, "hook-completes", 0.06) {
		hookCompletes = true
		k := r.Intn(len(c.dlgs))
		c.dlgs[k].Pol = append(c.dlgs[k].Pol, Pick(r, []Stmt{
			{Op: "not", Kids: []Stmt{{Op: "==", Sel: ".extra", Val: ptr(vInt(8))}}},
			{Op: "not", Kids: []Stmt{{Op: ">", Sel: ".extra", Val: ptr(vInt(5))}}},
			{Op: "==", Sel: ".extra", Val: ptr(vInt(3))},
			{Op: "and", Kids: []Stmt{{Op: "not", Kids: []Stmt{{Op: "==", Sel: ".extra", Val: ptr(vStr("x"))}}}, {Op: "<=", Sel: ".extra", Val: ptr(vInt(3))}}},
		}))
	}

	// an attenuated leaf (PolFrom) lists its base's statements first, as they stand after every
	// deviation, then its own (whatever later deviations put in front moves behind the base's)
	for i := range c.dlgs {
		if c.dlgs[i].PolFrom == "" {
			continue
		}
		for j := range c.dlgs {
			if c.dlgs[j].Label != c.dlgs[i].PolFrom {
				continue
			}
			seen := map[string]int{}
			for _, st := range c.dlgs[j].Pol {
				b, _ := json.Marshal(st)
				seen[string(b)]++
			}
			pol := append([]Stmt{}, c.dlgs[j].Pol...)
			for _, st := range c.dlgs[i].Pol {
				b, _ := json.Marshal(st)
				if seen[string(b)] > 0 {
					seen[string(b)]--
					continue
				}
				pol = append(pol, st)
			}
			c.dlgs[i].Pol = pol
		}
	}

	// --- inert extra arguments no statement talks about: unusual keys, deeper nesting, many keys
	if r.Chance(0.2) {
		extra := []KV{{"k.dot", vInt(1)}, {"ü ñ", vStr("x")}, {"a b", vBool(true)}, {"", vInt(0)}, {"deep", vMap(KV{"a", vMap(KV{"b", vList(vMap(KV{"c", vList(vInt(1), vFloat(-2.5), vStr(""))}), vList())})})},
			{"neg", vInt(-9007199254740991)}, {"fl", vFloat(1e300)}, {"nul", vNull()}, {"by", vBytes([]byte{0, 1, 2})}}
		for _, i := range r.Perm(len(extra))[:r.Range(1, len(extra))] {
			c.inv.Args = append(c.inv.Args, extra[i])
		}
		if r.Chance(0.3) {
			for i := 0; i < 40; i++ {
				c.inv.Args = append(c.inv.Args, KV{fmt.Sprintf("many%02d", i), vInt(int64(i))})
			}
		}
	}

	// --- audience
	audKinds := []int{-1, c.subject, c.inv.Iss, g.other(c.subject, c.inv.Iss)}
	if foreign != nil {
		audKinds = append(audKinds, foreign.subject)
	}
	c.inv.Aud = Pick(r, audKinds)
	if r.Chance(0.5) {
		c.inv.Aud = -1
	}
	var variants []InvSpec
	pv := 0.15
	if focus == "C01" || focus == "C05" {
		pv = 0.5
	}
	if r.Chance(pv) {
		for _, a := range audKinds {
			if a != c.inv.Aud && r.Chance(0.7) {
				v := c.inv
				v.Label = g.newInvLabel()
				v.Aud = a
				variants = append(variants, v)
			}
		}
	}

	// --- one expiration option VALUE shared by two delegations that are issued at different
	// times (an issuer that builds "valid for D" once and uses it for every token): the earlier
	// token expires before the check instant, the later one after it
	shareAt, shareTick := "", int64(0)
	if (spot == "shared-option" || r.Chance(0.03)) && len(c.dlgs) >= 2 {
		n := len(c.dlgs)
		a := r.Intn(n - 1)
		b := a + 1 + r.Intn(n-1-a)
		tA := g.now / 1_000_000_000
		if delta := (tcSec - tA) / 2; delta >= 4 {
			tB := tA + delta
			d := tcSec - tA - delta/2
			c.dlgs[a].Exp, c.dlgs[a].Nbf, c.dlgs[a].SubMilli, c.dlgs[a].NbfMilli, c.dlgs[a].ShareOpt = ptr(tA+d), nil, 0, 0, "ttl"
			c.dlgs[b].Exp, c.dlgs[b].Nbf, c.dlgs[b].SubMilli, c.dlgs[b].NbfMilli, c.dlgs[b].ShareOpt = ptr(tB+d), nil, 0, 0, "ttl"
			shareAt, shareTick = c.dlgs[b].Label, tB*1_000_000_000
			g.note("W:shared-expiration-option")
		}
	}

	// --- issue
	all := append([]DlgSpec{}, c.dlgs...)
	if foreign != nil {
		all = append(all, foreign.dlgs...)
	}
	for _, d := range all {
		if r.Chance(0.5) && shareAt == "" {
			g.tickTo(g.now + int64(r.Range(1, 5_000_000_000)))
		}
		if d.Label == shareAt {
			g.tickTo(shareTick)
		}
		g.issueDlg(d)
	}
	var auxLabels []string
	for _, a := range g.aux {
		g.issueInv(a)
		auxLabels = append(auxLabels, a.Label)
	}
	g.issueInv(c.inv)
	var vlabels []string
	for _, v := range variants {
		g.issueInv(v)
		vlabels = append(vlabels, v.Label)
	}

	// --- ship
	faulty := r.Chance(0.6)
	var dl []string
	for _, d := range all {
		if !notShipped[d.Label] {
			dl = append(dl, d.Label)
		}
	}
	il := append(append([]string{c.inv.Label}, vlabels...), auxLabels...)
	mkCheck := func() *CheckSpec {
		ck := &CheckSpec{Inv: c.inv.Label, Variants: vlabels}
		if faulty && r.Chance(0.2) && len(c.inv.Prf) > 0 {
			kinds := []string{"notfound", "error"}
			if focus == "C01" {
				// (faults outside the Loader contract only where principals are the subject: a library
				// that calls the loader from a goroutine of its own turns them into a process crash)
				kinds = []string{"notfound", "error", "notfound", "error", "nilnil", "panic"}
			}
			ck.LFaults = []LoaderFault{{Call: r.Intn(len(c.inv.Prf)), Kind: Pick(r, kinds)}}
			if r.Chance(0.35) && len(dl) > 0 {
				ck.LFaults[0].Kind, ck.LFaults[0].With = "swap", dl[r.Intn(len(dl))]
			}
		}
		if r.Chance(0.3) {
			ck.Prov = Pick(r, []string{"inv-built", "dlg-built", "all-built", "inv-json", "dlg-json", "all-json", "dlg-stream", "dlg-stream"})
		}
		switch spot {
		case "map-order":
			ck.Prov = Pick(r, []string{"inv-built", "dlg-built", "inv-json", "dlg-json"})
		case "prov-dlg":
			ck.Prov = Pick(r, []string{"dlg-built", "all-built", "dlg-json", "all-json", "dlg-stream", "dlg-stream"})
		case "prov-inv":
			ck.Prov = Pick(r, []string{"inv-built", "all-built", "inv-json", "all-json"})
		}
		ph := 0.25
		if focus == "C03" {
			ph = 0.5
		}
		if r.Chance(ph) || spot == "hook-twice" || spot == "hook-null" {
			ck.Hook = Pick(r, []string{"identity", "add", "add-include", "remove", "replace", "fail", "nil"})
			switch spot {
			case "hook-twice":
				ck.Hook = Pick(r, []string{"add", "add-include"})
			case "hook-null":
				ck.Hook = "replace"
			}
			if len(args) > 0 && r.Chance(0.8) {
				kv := args[r.Intn(len(args))]
				ck.HookKey = kv.Key
				nv := kv.V
				if nv.K == "int" {
					nv.I += int64(r.Range(-2, 2))
				} else if nv.K == "str" {
					nv.S = randWord(r, 0, 4)
				}
				ck.HookVal = &nv
				if ck.Hook == "replace" && spotWant(r, "hook-null", 0.3) {
					ck.HookVal = ptr(vNull())
				}
			} else {
				ck.HookKey = "zz"
				ck.HookVal = ptr(vInt(int64(r.Range(0, 5))))
			}
			if ck.Hook == "add" || ck.Hook == "add-include" {
				ck.HookKey = "extra"
			}
		}
		if hookCompletes {
			ck.Hook, ck.HookKey, ck.HookVal = Pick(r, []string{"add", "add-include"}), "extra", ptr(vInt(3))
		}
		return ck
	}
	order := r.Intn(4)
	switch order {
	case 0: // everything in one container
		g.emit(WStep{Op: "ship", Ship: g.shipSpec(append(append([]string{}, dl...), il...), faulty)})
	case 1: // proofs, then invocation
		if len(dl) > 0 {
			g.emit(WStep{Op: "ship", Ship: g.shipSpec(dl, faulty)})
		}
		g.emit(WStep{Op: "ship", Ship: g.shipSpec(il, faulty)})
	case 2: // invocation first: a check before the proofs arrive must deny
		g.emit(WStep{Op: "ship", Ship: g.shipSpec(il, faulty)})
		g.emit(WStep{Op: "check", Check: mkCheck()})
		if len(dl) > 0 {
			g.emit(WStep{Op: "ship", Ship: g.shipSpec(dl, faulty)})
		}
	default: // proofs split over two containers
		k := 0
		if len(dl) > 0 {
			k = r.Intn(len(dl) + 1)
		}
		if k > 0 {
			g.emit(WStep{Op: "ship", Ship: g.shipSpec(dl[:k], faulty)})
		}
		g.emit(WStep{Op: "ship", Ship: g.shipSpec(il, faulty)})
		if k < len(dl) {
			if r.Chance(0.3) {
				g.emit(WStep{Op: "check", Check: mkCheck()})
			}
			g.emit(WStep{Op: "ship", Ship: g.shipSpec(dl[k:], faulty)})
		}
	}

	// --- crash / restart
	if faulty && r.Chance(0.25) {
		torn := 0
		if r.Chance(0.6) {
			torn = r.Range(1, 999)
		}
		if r.Chance(0.4) {
			// reboot with a clock jump (possibly backwards)
			to := g.now
			if r.Chance(0.5) {
				to = int64(r.Range(0, int(min64(g.now/1_000_000_000, 1<<30)))) * 1_000_000_000
			}
			g.emit(WStep{Op: "reboot", ToNS: to, Torn: torn})
			g.now = to
		} else {
			g.emit(WStep{Op: "crash", Torn: torn})
			g.emit(WStep{Op: "restart"})
		}
		// invocations live in memory only: re-deliver them, sometimes everything
		if r.Chance(0.7) {
			g.emit(WStep{Op: "ship", Ship: g.shipSpec(il, false)})
		}
		if r.Chance(0.3) {
			g.emit(WStep{Op: "check", Check: mkCheck()})
		}
	}

	// --- the main check at Tc
	g.tickTo(tcNS)
	g.emit(WStep{Op: "check", Check: mkCheck()})
	if g.wantBuilt {
		g.emit(WStep{Op: "check", Check: &CheckSpec{Inv: c.inv.Label, Prov: "all-built"}})
	}
	if conform && len(c.inv.Prf) > 0 && len(dl) > 1 && spotWant(r, "swap-recheck", 0.1) {
		// everything delivered for certain, a clean check (allowed), and then the same invocation
		// against a store that answers one call with another delegation it holds, or not at all
		g.emit(WStep{Op: "ship", Ship: g.shipSpec(append(append([]string{}, dl...), il...), false)})
		g.emit(WStep{Op: "check", Check: &CheckSpec{Inv: c.inv.Label}})
		call := r.Intn(len(c.inv.Prf))
		with := dl[r.Intn(len(dl))]
		for tries := 0; tries < 4 && with == c.inv.Prf[call]; tries++ {
			with = dl[r.Intn(len(dl))]
		}
		g.emit(WStep{Op: "check", Check: &CheckSpec{Inv: c.inv.Label, LFaults: []LoaderFault{{Call: call, Kind: "swap", With: with}}}})
		g.emit(WStep{Op: "check", Check: &CheckSpec{Inv: c.inv.Label, LFaults: []LoaderFault{{Call: r.Intn(len(c.inv.Prf)), Kind: Pick(r, []string{"notfound", "error"})}}}})
		g.emit(WStep{Op: "check", Check: &CheckSpec{Inv: c.inv.Label}})
	}

	// --- a sibling chain that shares the lower links (the leaf included) with the chain that was
	// just checked, but hangs under ANOTHER parent at one position, and that parent deviates: a
	// decision about one chain says nothing about another chain through the same delegations
	if conform && len(c.dlgs) >= 2 && (r.Chance(0.3) || strings.HasPrefix(spot, "sibling-")) {
		n := len(c.dlgs)
		j := r.Intn(n - 1) // root .. second-to-last: the delegation that is replaced
		d2 := c.dlgs[j]
		d2.Label = g.newDlgLabel()
		d2.Pol = append([]Stmt{}, d2.Pol...)
		kind := Pick(r, []string{"K", "K", "P", "Q", "W"})
		if strings.HasPrefix(spot, "sibling-") {
			kind = strings.TrimPrefix(spot, "sibling-")
		}
		switch kind {
		case "K":
			// the parent grants less than the shared link below it passes on
			d2.Cmd = extendCmd(r, c.dlgs[j+1].Cmd)
			if d2.Cmd == c.dlgs[j+1].Cmd {
				kind = "P"
				d2.Aud = g.other(d2.Aud)
			}
		case "P":
			d2.Aud = g.other(d2.Aud)
		case "Q":
			d2.Pol = append(d2.Pol, genStmt(r, c.inv.Args, false, 0, true))
		case "W":
			d2.Exp, d2.Nbf = ptr(tcSec-int64(r.Range(1, 4000))), nil
		}
		inv2 := c.inv
		inv2.Label = g.newInvLabel()
		inv2.Prf = append([]string{}, c.inv.Prf...)
		for i, l := range inv2.Prf {
			if l == c.dlgs[j].Label {
				inv2.Prf[i] = d2.Label
			}
		}
		g.issueDlg(d2)
		g.issueInv(inv2)
		g.emit(WStep{Op: "ship", Ship: g.shipSpec(append(append([]string{}, dl...), append(il, d2.Label, inv2.Label)...), false)})
		g.emit(WStep{Op: "check", Check: &CheckSpec{Inv: c.inv.Label}})
		g.emit(WStep{Op: "check", Check: &CheckSpec{Inv: inv2.Label}})
		g.emit(WStep{Op: "check", Check: &CheckSpec{Inv: c.inv.Label}})
		// ... then a CAR in which the deviating delegation and the one it replaces sit under each
		// other's labels (both genuine, same principals): whatever the reader makes of it, the name
		// of the deviating one must not come to serve the other
		g.emit(WStep{Op: "ship", Ship: &ShipSpec{Labels: []string{c.dlgs[j].Label, d2.Label}, Format: Pick(r, []string{"car", "carb64"}), RStream: r.Chance(0.5), Fault: "relabel"}})
		g.emit(WStep{Op: "check", Check: &CheckSpec{Inv: inv2.Label}})
		g.emit(WStep{Op: "check", Check: &CheckSpec{Inv: c.inv.Label}})
		g.note("sibling:" + kind)
	}

	// --- the very proofs of a chain that was just allowed, presented by SOMEBODY ELSE (same
	// subject, same command, same proof list, another invoker), and by the rightful invoker again
	if conform && len(c.dlgs) >= 1 && spotWant(r, "other-invoker", 0.25) {
		inv2 := c.inv
		inv2.Label = g.newInvLabel()
		inv2.Iss = g.other(c.inv.Iss, c.dlgs[len(c.dlgs)-1].Aud)
		inv2.Prf = append([]string{}, c.inv.Prf...)
		g.issueInv(inv2)
		g.emit(WStep{Op: "ship", Ship: g.shipSpec(append(append([]string{}, dl...), append(append([]string{}, il...), inv2.Label)...), false)})
		g.emit(WStep{Op: "check", Check: &CheckSpec{Inv: c.inv.Label}})
		g.emit(WStep{Op: "check", Check: &CheckSpec{Inv: inv2.Label}})
		g.emit(WStep{Op: "check", Check: &CheckSpec{Inv: c.inv.Label}})
		g.note("sibling:other-invoker")
	}

	// --- a long-running process: the chain is validated, hundreds of unrelated selectors,
	// policies, commands, identifiers and tokens pass through the library, everything is
	// delivered (decoded) afresh and validated again
	if spotWant(r, "churn", 0.04) {
		g.emit(WStep{Op: "ship", Ship: g.shipSpec(append(append([]string{}, dl...), il...), false)})
		g.emit(WStep{Op: "check", Check: &CheckSpec{Inv: c.inv.Label}})
		g.emit(WStep{Op: "churn", N: Pick(r, []int{300, 600, 1100})})
		g.emit(WStep{Op: "check", Check: &CheckSpec{Inv: c.inv.Label}})
		g.emit(WStep{Op: "ship", Ship: g.shipSpec(append(append([]string{}, dl...), il...), false)})
		g.emit(WStep{Op: "check", Check: &CheckSpec{Inv: c.inv.Label}})
		g.note("churn")
	}

	// --- the chain that was just allowed, then the SAME proofs without the root (a chain one
	// shorter whose last delegation is not issued by the subject), then the full chain again: what
	// one validation leaves behind does not serve the next
	if conform && len(c.dlgs) >= 2 && len(c.inv.Prf) == len(c.dlgs) && spotWant(r, "rootless-after", 0.15) {
		inv2 := c.inv
		inv2.Label = g.newInvLabel()
		inv2.Prf = append([]string{}, c.inv.Prf[:len(c.inv.Prf)-1]...)
		g.issueInv(inv2)
		g.emit(WStep{Op: "ship", Ship: g.shipSpec(append(append([]string{}, dl...), append(append([]string{}, il...), inv2.Label)...), false)})
		g.emit(WStep{Op: "check", Check: &CheckSpec{Inv: c.inv.Label}})
		g.emit(WStep{Op: "check", Check: &CheckSpec{Inv: inv2.Label}})
		g.emit(WStep{Op: "check", Check: &CheckSpec{Inv: c.inv.Label}})
		g.note("sibling:rootless-after")
	}

	// --- the same delegation objects serve a SECOND invocation whose arguments are longer (every
	// string gets a tail, every list further elements): statements over open-ended slices and
	// quantifiers see the whole of the new value; then the first invocation again
	if conform && len(c.dlgs) >= 1 && spotWant(r, "second-args", 0.15) {
		inv2 := c.inv
		inv2.Label = g.newInvLabel()
		inv2.Args = nil
		for _, kv := range c.inv.Args {
			v := kv.V
			switch v.K {
			case "str":
				v = vStr(v.S + Pick(r, []string{"zz", "\u00e9x", "*", "/etc"}))
			case "list":
				l := append([]Val{}, v.L...)
				if len(l) > 0 && l[0].K == "map" {
					l = append(l, vMap(KV{"x", vInt(1 << 40)}), vMap(KV{"y", vStr("tail")}))
				} else {
					l = append(l, vInt(1<<40), vInt(-(1 << 40)))
				}
				v = Val{K: "list", L: l}
			}
			inv2.Args = append(inv2.Args, KV{kv.Key, v})
		}
		g.issueInv(inv2)
		g.emit(WStep{Op: "ship", Ship: g.shipSpec(append(append([]string{}, dl...), append(append([]string{}, il...), inv2.Label)...), false)})
		// (on the store's objects the conforming invocation goes first, on the constructed objects -
		// fresh ones - the other one does: whichever evaluation comes first must not shape the next)
		for _, prov := range []string{"", "dlg-built"} {
			a, b := c.inv.Label, inv2.Label
			if prov != "" {
				a, b = b, a
			}
			g.emit(WStep{Op: "check", Check: &CheckSpec{Inv: a, Prov: prov}})
			g.emit(WStep{Op: "check", Check: &CheckSpec{Inv: b, Prov: prov}})
			g.emit(WStep{Op: "check", Check: &CheckSpec{Inv: a, Prov: prov}})
		}
		g.note("sibling:second-args")
	}

	// --- the attenuation-by-append plan (see deviateQ): full chain, chain ending at the parent, full
	// chain again, all on the constructed delegation objects
	if g.aliasPlan && len(c.dlgs) >= 3 {
		n := len(c.dlgs)
		inv2 := c.inv
		inv2.Label = g.newInvLabel()
		inv2.Iss = c.dlgs[n-2].Aud
		inv2.Prf = nil
		for k := n - 2; k >= 0; k-- {
			inv2.Prf = append(inv2.Prf, c.dlgs[k].Label)
		}
		g.issueInv(inv2)
		g.emit(WStep{Op: "ship", Ship: g.shipSpec(append(append([]string{}, dl...), append(append([]string{}, il...), inv2.Label)...), false)})
		g.emit(WStep{Op: "check", Check: &CheckSpec{Inv: c.inv.Label, Prov: "dlg-built"}})
		g.emit(WStep{Op: "check", Check: &CheckSpec{Inv: inv2.Label, Prov: "dlg-built"}})
		g.emit(WStep{Op: "check", Check: &CheckSpec{Inv: c.inv.Label, Prov: "dlg-built"}})
	}

	// --- recovery: after the last fault everything is re-delivered fault-free
	if faulty && r.Chance(0.6) {
		g.emit(WStep{Op: "ship", Ship: g.shipSpec(append(append([]string{}, dl...), il...), false)})
		ck := mkCheck()
		ck.LFaults = nil
		g.emit(WStep{Op: "check", Check: ck})
	}

	// --- timeline sweep
	ps := 0.25
	if focus == "C04" {
		ps = 0.8
	}
	if r.Chance(ps) {
		g.sweep(c, foreign, vlabels)
	}

	note := "conforming"
	if !conform {
		note = strings.Join(g.notes, ",")
	}
	return &WorldPlan{Cast: g.cast, Steps: g.steps, Note: note}
}

func min64(a, b int64) int64 {
	if a < b {
		return a
	}
	return b
}

// sweep visits the neighbourhood of every bound in the world in increasing
// order of time.
func (g *wgen) sweep(c, foreign *chain, vlabels []string) {
	r := g.r
	var bounds []int64
	labels := []string{c.inv.Label}
	add := func(b *int64) {
		// (instants are int64 nanoseconds after the simulation epoch: bounds more than ~290 years
		// away have no representable neighbourhood and are left to the checks at ordinary instants)
		if b != nil && *b < 9_000_000_000 && *b > -9_000_000_000 {
			bounds = append(bounds, *b*1_000_000_000)
		}
	}
	add(c.inv.Exp)
	for _, d := range c.dlgs {
		add(d.Nbf)
		add(d.Exp)
		if d.SubMilli != 0 {
			near := func(b *int64) bool { return b != nil && *b < 9_000_000_000 && *b > -9_000_000_000 }
			if near(d.Exp) {
				bounds = append(bounds, *d.Exp*1_000_000_000+d.SubMilli*1_000_000)
			}
			if near(d.Nbf) {
				bounds = append(bounds, *d.Nbf*1_000_000_000+d.SubMilli*1_000_000)
			}
		}
		labels = append(labels, d.Label)
	}
	// an expiry that passes WHILE the executor's hook is at work (the check starts half a second
	// before it, the hook takes a second): decided by the instant the call returns
	var exps []int64
	addExp := func(b *int64) {
		if b != nil && *b < 9_000_000_000 && *b > -9_000_000_000 {
			exps = append(exps, *b*1_000_000_000)
		}
	}
	addExp(c.inv.Exp)
	for _, d := range c.dlgs {
		addExp(d.Exp)
	}
	sort.Slice(exps, func(i, j int) bool { return exps[i] < exps[j] })
	for _, x := range exps {
		if x-500_000_000 > g.now && r.Chance(0.7) {
			g.tickTo(x - 500_000_000)
			g.emit(WStep{Op: "check", Check: &CheckSpec{Inv: c.inv.Label, Hook: "identity", HookSleepNS: 1_000_000_000}})
			break // (the clock has moved past this bound: the ordinary sweep continues from here)
		}
	}
	var visits []int64
	for _, b := range bounds {
		for _, d := range []int64{-1_000_000_000, -1, 0, 1, 1_000_000_000} {
			visits = append(visits, b+d)
		}
	}
	visits = append(visits, g.now+1, 1<<61)
	sort.Slice(visits, func(i, j int) bool { return visits[i] < visits[j] })
	// probe instants include the past (also before the epoch)
	probeAt := append([]int64{-1 << 55, -1, 0}, visits...)
	n := 0
	for _, v := range visits {
		if v <= g.now || n >= 24 {
			continue
		}
		n++
		g.tickTo(v)
		g.emit(WStep{Op: "check", Check: &CheckSpec{Inv: c.inv.Label, Variants: vlabels}})
		if r.Chance(0.5) {
			l := Pick(r, labels)
			var at []int64
			for i := 0; i < 6; i++ {
				at = append(at, Pick(r, probeAt))
			}
			g.emit(WStep{Op: "probe", Probe: &ProbeSpec{Label: l, AtNS: at}})
		}
	}
	for _, l := range labels {
		if r.Chance(0.5) {
			g.emit(WStep{Op: "probe", Probe: &ProbeSpec{Label: l, AtNS: probeAt}})
		}
	}
}

// ---- deviations

func (g *wgen) deviateP(c, foreign *chain, notShipped map[string]bool) {
	r := g.r
	n := len(c.dlgs)
	if n == 0 {
		// a chain of length 0 is already a deviation (empty proof list)
		g.note("P:empty")
		return
	}
	k := r.Intn(n)
	if spot == "long-dev" && n > 16 {
		// proof index 16, 32, 48 (counted from the leaf): where tables, masks and windows of 16 end
		k = n - 1 - 16*(1+r.Intn((n-1)/16))
	}
	pos := "mid"
	if k == 0 {
		pos = "root"
	} else if k == n-1 {
		pos = "leaf"
	}
	choice := r.Intn(15)
	if spot == "long-dev" {
		choice = r.Intn(5) // the plain principal deviations
	}
	switch spot {
	case "inv-as-proof":
		choice = 14
	case "lookalike":
		choice = 12 + r.Intn(2)
	}
	if len(c.inv.Prf) == 0 && ((choice >= 5 && choice <= 10) || choice == 14) {
		g.note("P:empty")
		return
	}
	switch choice {
	case 14:
		// a proof entry that names an INVOCATION (a token the store really holds, of the wrong
		// type): in place of a link, or in addition to the links
		aux := InvSpec{Label: g.newInvLabel(), Iss: c.inv.Iss, Sub: c.subject, Aud: -1, Cmd: c.inv.Cmd, NonceLen: 12}
		g.aux = append(g.aux, aux)
		i := r.Intn(len(c.inv.Prf))
		if r.Chance(0.5) {
			c.inv.Prf[i] = aux.Label
		} else {
			c.inv.Prf = append(c.inv.Prf[:i:i], append([]string{aux.Label}, c.inv.Prf[i:]...)...)
		}
		g.note("P:invocation-as-proof")
	case 0:
		c.dlgs[k].Aud = g.other(c.dlgs[k].Aud)
		g.note("P:wrong-aud@" + pos)
	case 1:
		c.dlgs[k].Iss = g.other(c.dlgs[k].Iss)
		c.dlgs[k].UseRoot = false
		g.note("P:wrong-iss@" + pos)
	case 2:
		c.dlgs[k].Sub = g.other(c.dlgs[k].Sub)
		c.dlgs[k].UseRoot = false
		g.note("P:other-subject@" + pos)
	case 3:
		c.dlgs[k].Sub = -1
		c.dlgs[k].UseRoot = false
		g.note("P:powerline@" + pos)
	case 4: // whole chain rooted in another principal
		x := g.other(c.subject)
		for i := range c.dlgs {
			c.dlgs[i].Sub = x
			c.dlgs[i].UseRoot = false
		}
		c.dlgs[0].Iss = x
		g.note("P:foreign-root")
	case 5:
		if len(c.inv.Prf) >= 2 {
			i, j := r.Intn(len(c.inv.Prf)), r.Intn(len(c.inv.Prf))
			c.inv.Prf[i], c.inv.Prf[j] = c.inv.Prf[j], c.inv.Prf[i]
			g.note("P:permuted")
		} else {
			c.inv.Prf = nil
			g.note("P:empty")
		}
	case 6:
		i := r.Intn(len(c.inv.Prf))
		c.inv.Prf = append(c.inv.Prf[:i+1], c.inv.Prf[i:]...)
		g.note("P:duplicated")
	case 7:
		i := r.Intn(len(c.inv.Prf))
		where := "mid"
		if i == 0 {
			where = "leaf"
		} else if i == len(c.inv.Prf)-1 {
			where = "root"
		}
		c.inv.Prf = append(c.inv.Prf[:i:i], c.inv.Prf[i+1:]...)
		g.note("P:dropped@" + where)
	case 8:
		c.inv.Prf = nil
		g.note("P:empty")
	case 9:
		if foreign != nil {
			i := r.Intn(len(c.inv.Prf) + 1)
			l := foreign.dlgs[r.Intn(len(foreign.dlgs))].Label
			c.inv.Prf = append(c.inv.Prf[:i:i], append([]string{l}, c.inv.Prf[i:]...)...)
			g.note("P:unrelated-proof")
		} else {
			c.inv.Iss = g.other(c.inv.Iss)
			g.note("P:other-invoker")
		}
	case 10:
		i := r.Intn(len(c.inv.Prf))
		c.inv.Prf[i] = "ghost" + fmt.Sprint(i)
		g.note("P:missing-delegation")
	case 11:
		notShipped[c.dlgs[k].Label] = true
		g.note("P:not-shipped@" + pos)
	case 12:
		// the audience is a look-alike of the principal it should be (another key whose
		// did:key string differs only in the case of one letter)
		if c.dlgs[k].Aud >= 0 && c.dlgs[k].Aud < lookAlike {
			c.dlgs[k].Aud += lookAlike
		}
		g.note("P:lookalike-aud@" + pos)
	default:
		if c.dlgs[k].Sub >= 0 && c.dlgs[k].Sub < lookAlike {
			c.dlgs[k].Sub += lookAlike
		}
		c.dlgs[k].UseRoot = false
		g.note("P:lookalike-sub@" + pos)
	}
}

func (g *wgen) deviateK(c *chain) {
	r := g.r
	n := len(c.dlgs)
	// position n means the invocation's own command
	if n == 0 {
		return
	}
	k := r.Range(1, n)
	sp := spot
	if sp == "" && r.Chance(0.06) {
		sp = "rawcmd"
	}
	switch sp {
	case "self-K":
		for i := 1; i < n; i++ {
			if c.dlgs[i].Iss == c.dlgs[i].Aud {
				k = i // the self-link is the one that widens
			}
		}
	case "rawcmd":
		// a deviating issuer's delegation whose command no parser accepts (upper case, trailing
		// slash, no leading slash, empty): the model reads the text as it stands
		k = r.Intn(n)
		base := c.dlgs[k].Cmd
		raw := strings.ToUpper(base[:min(2, len(base))]) + base[min(2, len(base)):]
		switch r.Intn(5) {
		case 0:
			raw = base + "/"
		case 1:
			raw = strings.TrimPrefix(base, "/")
		case 2:
			raw = ""
		case 3:
			raw = "/" + strings.ToUpper(Pick(r, cmdSegments[:8])) + strings.TrimSuffix(base, "/")
		}
		if raw == base || raw == "/" {
			raw = "/X"
		}
		c.dlgs[k].RawCmd = raw
		g.note("K:raw-command@" + fmt.Sprint(k))
		return
	case "top-under-one":
		// everything above is "/", link k-1 grants exactly one segment, link k hands out "/" again
		k = 1 + r.Intn(n-1)
		seg := Pick(r, cmdSegments[:8])
		for i := 0; i < k-1; i++ {
			c.dlgs[i].Cmd = "/"
		}
		c.dlgs[k-1].Cmd = "/" + seg
		for i := k; i < n; i++ {
			c.dlgs[i].Cmd = "/"
		}
		c.inv.Cmd = "/" + seg
		if r.Chance(0.5) {
			c.inv.Cmd = extendCmd(r, c.inv.Cmd)
		}
		g.note("K:top-under-one-segment@" + fmt.Sprint(k))
		return
	}
	if k == n {
		nc, kind := notCovered(r, c.dlgs[n-1].Cmd)
		if nc == "" {
			return
		}
		if nc != "/" && r.Chance(0.5) {
			// a look-alike with further child segments (/a vs /ab/c)
			nc, kind = extendCmd(r, nc), kind+"+child"
		}
		// notCovered returns something base does not cover... here we need a
		// command the leaf does not cover
		c.inv.Cmd = nc
		g.note("K:" + kind + "@inv")
		return
	}
	if sp == "seg-wrap" || r.Chance(0.02) {
		// a grant of 256 or more segments above, and below it a command that shares only its first
		// (N mod 256) segments with it (for 256 and 512: the top command): far wider, not covered
		N := Pick(r, []int{256, 257, 300, 512, 255, 260})
		segs := make([]string, N)
		for i := range segs {
			segs[i] = fmt.Sprintf("s%d", i%7)
		}
		long := "/" + strings.Join(segs, "/")
		wide := "/" + strings.Join(segs[:N%256], "/")
		for i := 0; i < k; i++ {
			c.dlgs[i].Cmd = long
		}
		for i := k; i < n; i++ {
			c.dlgs[i].Cmd = wide
		}
		c.inv.Cmd = strings.TrimSuffix(wide, "/") + "/vault/destroy"
		g.note(fmt.Sprintf("K:seg-wrap/%d@%d", N, k))
		return
	}
	if n >= 2 && len(c.inv.Prf) == n && (sp == "dup-proof" || r.Chance(0.05)) {
		// the leaf is named a second time further up the proof list ([leaf, parent, leaf, ...]),
		// and it is strictly narrower than its parent: the list as it stands widens at the repeated
		// entry (and is misaligned there), while the list without the repetition is a fine chain
		c.dlgs[n-1].Cmd = extendCmd(r, c.dlgs[n-2].Cmd)
		c.inv.Cmd = c.dlgs[n-1].Cmd
		prf := append([]string{}, c.inv.Prf[:2]...)
		prf = append(prf, c.inv.Prf[0])
		c.inv.Prf = append(prf, c.inv.Prf[2:]...)
		g.note(fmt.Sprintf("K:dup-proof/%d", n))
		return
	}
	if P := c.dlgs[k-1].Cmd; P != "/" && !strings.HasPrefix(P, cmdBytesPrefix) && (sp == "bad-utf8" || r.Chance(0.06)) {
		// commands that are not valid UTF-8 (only tokens kept in memory can hold them: no decoder
		// accepts one): the grant above ends in byte 0xFE, everything below continues with 0xFF in
		// its place - other bytes, another command - and is invoked as such
		for i := 0; i < k; i++ {
			if c.dlgs[i].Cmd == P {
				c.dlgs[i].Cmd = cmdBytes(P + "\xfe")
			}
		}
		for i := k; i < n; i++ {
			if strings.HasPrefix(c.dlgs[i].Cmd, P) && !strings.HasPrefix(c.dlgs[i].Cmd, cmdBytesPrefix) {
				c.dlgs[i].Cmd = cmdBytes(P + "\xff" + c.dlgs[i].Cmd[len(P):])
			}
		}
		if strings.HasPrefix(c.inv.Cmd, P) {
			c.inv.Cmd = cmdBytes(P + "\xff" + c.inv.Cmd[len(P):])
		}
		g.wantBuilt = true
		g.note(fmt.Sprintf("K:bad-utf8@%d/%d", k, n))
		return
	}
	if sp == "widen-back" {
		// a long chain that widens at a proof index which is a multiple of 8 counted from the leaf
		// (where an implementation working in batches changes batch)
		if m := n / 8; m >= 1 && n-8*(1+r.Intn(m)) >= 1 {
			k = n - 8*(1+r.Intn(m))
			if k < 1 {
				k = n - 8
			}
		}
	}
	nc, kind := notCovered(r, c.dlgs[k-1].Cmd)
	if nc == "" {
		return
	}
	if segs := cmdSegs(c.dlgs[k-1].Cmd); len(segs) >= 1 && (sp == "widen-back" || r.Chance(0.25)) {
		// widen to an ANCESTOR of what was received and invoke something the narrow grant above
		// covers as well: every delegation covers the invoked command, only the order of the grants
		// is wrong
		narrow := c.dlgs[k-1].Cmd
		nc = "/" + strings.Join(segs[:r.Intn(len(segs))], "/")
		for i := k; i < n; i++ {
			c.dlgs[i].Cmd = nc
		}
		c.inv.Cmd = narrow
		if r.Chance(0.5) {
			c.inv.Cmd = extendCmd(r, narrow)
		}
		g.note(fmt.Sprintf("K:widen-and-back@%d/%d", k, n))
		return
	}
	if nc != "/" && r.Chance(0.5) {
		nc, kind = extendCmd(r, nc), kind+"+child"
	}
	pos := "mid"
	if k == n-1 {
		pos = "leaf"
	}
	// re-derive the commands below the widened link so the deviation is isolated
	cmd := nc
	for i := k; i < n; i++ {
		if i > k && r.Chance(0.3) {
			cmd = extendCmd(r, cmd)
		}
		c.dlgs[i].Cmd = cmd
	}
	c.inv.Cmd = cmd
	if r.Chance(0.5) {
		c.inv.Cmd = extendCmd(r, cmd)
	}
	g.note("K:" + kind + "@" + pos)
}

func (g *wgen) deviateQ(c *chain) {
	r := g.r
	n := len(c.dlgs)
	if n == 0 {
		return
	}
	if n >= 3 && spotWant(r, "alias", 0.2) && !g.aliasPlan {
		// attenuation by append on live tokens: the leaf's policy is the parent's policy plus one
		// FALSE statement, in the parent's backing array (which has room); a link further up has at
		// least one statement. The plan later checks the full chain, then the chain that ends at
		// the parent, then the full chain again, on the constructed objects.
		g.aliasPlan = true
		c.dlgs[n-2].PolSpare, c.dlgs[n-2].PolFrom = true, ""
		c.dlgs[n-1].PolFrom, c.dlgs[n-1].PolSpare = c.dlgs[n-2].Label, false
		c.dlgs[n-1].Pol = append(append([]Stmt{}, c.dlgs[n-2].Pol...), genStmt(r, c.inv.Args, false, 0, true))
		if len(c.dlgs[n-3].Pol) == 0 {
			if st := genStmt(r, c.inv.Args, true, 0, true); st.Op != "nop" {
				c.dlgs[n-3].Pol = []Stmt{st}
			}
		}
		g.note("Q:false@leaf-appended-to-parent")
		return
	}
	k := r.Intn(n)
	pos := "mid"
	if k == 0 {
		pos = "root"
	} else if k == n-1 {
		pos = "leaf"
	}
	s := genStmt(r, c.inv.Args, false, 0, true)
	if spotWant(r, "same-selector", 0.25) {
		// the same selector text at the top level (true there) and inside a quantifier (false for
		// some element): the top-level statement sits where it is evaluated first (the leaf)
		var recs, top *KV
		for i := range c.inv.Args {
			switch c.inv.Args[i].Key {
			case "rec":
				recs = &c.inv.Args[i]
			case "x":
				top = &c.inv.Args[i]
			}
		}
		if recs != nil && top != nil && top.V.K == "int" {
			worst, have := int64(0), false
			for _, e := range recs.V.L {
				if x, ok := e.get("x"); ok && (!have || x.I > worst) {
					worst, have = x.I, true
				}
			}
			if have && worst > top.V.I {
				lim := top.V.I + (worst-top.V.I-1)/2 // top.x <= lim < worst
				s = Stmt{Op: "all", Sel: ".rec", Kids: []Stmt{{Op: "<=", Sel: ".x?", Val: ptr(vInt(lim))}}}
				first := Stmt{Op: "<=", Sel: ".x?", Val: ptr(vInt(lim))}
				c.dlgs[n-1].Pol = append([]Stmt{first}, c.dlgs[n-1].Pol...)
				if r.Chance(0.5) {
					// ... and in the very policy that holds the quantifier, in front of it
					c.dlgs[k].Pol = append([]Stmt{first}, c.dlgs[k].Pol...)
				}
				g.note("Q:same-selector")
			}
		}
	}
	if spot == "long-like" {
		// a deny-pattern (not like) with a literal after a star, against tens of kilobytes made of
		// near-matches of that literal with the real match at the very end: however much work
		// the matcher does, the verdict is "matches", so the negation is false
		n := Pick(r, []int{600, 2500, 5000})
		path := strings.Repeat("../../../../x/", n) + "../../../../etc/passwd"
		c.inv.Args = append(c.inv.Args, KV{"path", vStr(path)})
		s = Stmt{Op: "not", Kids: []Stmt{{Op: "like", Sel: ".path", Pat: "*../../../../etc/*"}}}
		g.note("Q:long-like")
	}
	if spotWant(r, "twin", 0.2) {
		// twins: the false statement compares an integer argument with a FLOAT of a value for
		// which the same statement over the integer is true, and that true twin sits elsewhere
		// in the chain (statements that print alike are still two statements)
		for _, kv := range c.inv.Args {
			if kv.V.K == "int" && kv.V.I > -1000 && kv.V.I < 1000 {
				d := int64(r.Range(0, 5))
				op := Pick(r, []string{"<=", ">=", "=="})
				lim := kv.V.I
				switch op {
				case "<=":
					lim += d
				case ">=":
					lim -= d
				}
				s = Stmt{Op: op, Sel: "." + kv.Key, Val: ptr(vFloat(float64(lim)))}
				twin := Stmt{Op: op, Sel: "." + kv.Key, Val: ptr(vInt(lim))}
				j := r.Intn(n)
				c.dlgs[j].Pol = append([]Stmt{twin}, c.dlgs[j].Pol...)
				if r.Chance(0.3) {
					c.dlgs[n-1].Pol = append([]Stmt{twin}, c.dlgs[n-1].Pol...)
				}
				g.note("Q:twin")
				break
			}
		}
	}
	pl := c.dlgs[k].Pol
	i := r.Intn(len(pl) + 1)
	c.dlgs[k].Pol = append(pl[:i:i], append([]Stmt{s}, pl[i:]...)...)
	g.note(fmt.Sprintf("Q:false@%s#%d/%d", pos, i, len(pl)+1))
}

func (g *wgen) deviateW(c *chain, tcSec int64) {
	r := g.r
	n := len(c.dlgs)
	k := r.Intn(n + 1) // n = the invocation itself
	m := Pick(r, []int64{0, 1, 60, 86400 * 400})
	// sometimes an expiry at or around the unix epoch (0, 1, -1, 1900): "zero means absent" style slips
	if r.Chance(0.2) {
		m = tcSec + simEpochUnix - Pick(r, []int64{0, 1, -1, -2208988800, 946684800})
	}
	switch spot {
	case "far-nbf", "both-bounds", "unbounded-then-bad", "raw-nbf":
		if n > 0 && k == n {
			k = r.Intn(n)
		}
	}
	if spot == "unbounded-then-bad" && n >= 2 {
		// a link without any bound nearer to the leaf, the bad link above it
		k = r.Intn(n - 1)
		c.dlgs[n-1].Nbf, c.dlgs[n-1].Exp = nil, nil
	}
	if k == n {
		c.inv.Exp = ptr(tcSec - m)
		g.note("W:expired@inv")
		return
	}
	if spot == "raw-nbf" || r.Chance(0.04) {
		// a deviating issuer's delegation whose not-before on the wire lies beyond 2^53 seconds
		// (no constructor lets that through: the field is rewritten in the sealed bytes and the
		// envelope signed again): not active for a few hundred million years, if it is read at all
		c.dlgs[k].RawNbf = Pick(r, []int64{1<<53 + 1, 1 << 62, 1<<63 - 1, 1 << 53})
		c.dlgs[k].Nbf, c.dlgs[k].Exp = nil, nil
		g.note("W:raw-nbf@" + fmt.Sprint(k))
		return
	}
	pos := "mid"
	if k == 0 {
		pos = "root"
	} else if k == n-1 {
		pos = "leaf"
	}
	if r.Chance(0.5) && spot != "far-nbf" && spot != "both-bounds" {
		c.dlgs[k].Exp = ptr(tcSec - m)
		if c.dlgs[k].Nbf != nil && *c.dlgs[k].Nbf > *c.dlgs[k].Exp {
			c.dlgs[k].Nbf = nil
		}
		g.note("W:expired@" + pos)
	} else {
		c.dlgs[k].Nbf = ptr(tcSec + 1 + m)
		if spotWant(r, "far-nbf", 0.25) {
			c.dlgs[k].Nbf = ptr(Pick(r, farFuture) - simEpochUnix)
		}
		if spot == "both-bounds" {
			// not yet active AND carrying an expiration that has not passed
			c.dlgs[k].Exp = ptr(*c.dlgs[k].Nbf + 1 + int64(r.Range(1, 100000)))
		}
		if c.dlgs[k].Exp != nil && *c.dlgs[k].Exp < *c.dlgs[k].Nbf {
			c.dlgs[k].Exp = nil
		}
		g.note("W:not-yet@" + pos)
	}
}
