package main

import (
	"fmt"
	"os"
	"os/exec"
	"path/filepath"
	"sort"
	"strings"
	"sync"

	"dsim/sim"
	"encoding/json"
)

// selftest: for every scenario, the same 64 seeds are executed in 30 separate
// processes spread over GOMAXPROCS 1, 4 and 16; the per-run event-log hashes
// must be identical in all of them.
func selftest(args []string) int {
	scen := map[string]part{}
	focusOf := map[string][]string{}
	for _, id := range sortedKeys(props) {
		for _, pt := range props[id].Parts {
			scen[pt.Scenario] = pt
			focusOf[pt.Scenario] = append(focusOf[pt.Scenario], id)
		}
	}
	only := ""
	n := uint64(64)
	deep := false
	for i := 0; i < len(args); i++ {
		if args[i] == "--scenario" && i+1 < len(args) {
			only = args[i+1]
		}
		if args[i] == "--deep" {
			deep = true
		}
	}
	if deep {
		return selftestDeep(scen, focusOf, only)
	}
	names := make([]string, 0, len(scen))
	for s := range scen {
		names = append(names, s)
	}
	sort.Strings(names)
	bad := 0
	for _, s := range names {
		if only != "" && s != only {
			continue
		}
		pt := scen[s]
		bin := build(pt.Race)
		tmp, _ := os.MkdirTemp(buildDir, "selftest-")
		var mu sync.Mutex
		var wg sync.WaitGroup
		results := map[string][]string{}
		sem := make(chan struct{}, 16)
		idx := 0
		for _, gmp := range []string{"1", "4", "16"} {
			for rep := 0; rep < 10; rep++ {
				idx++
				i := idx
				gmp := gmp
				wg.Add(1)
				sem <- struct{}{}
				go func() {
					defer wg.Done()
					defer func() { <-sem }()
					hf := filepath.Join(tmp, fmt.Sprintf("h-%d", i))
					job := &sim.Job{Mode: "batch", Scenario: s, Focus: "", Tier: "quick", BaseSeed: 424242, From: 0, To: n,
						Out: filepath.Join(tmp, fmt.Sprintf("r-%d.json", i)), ReplayDir: tmp, Known: filepath.Join(verifDir, "known_findings.json"), NoMin: true, HashesOut: hf}
					jf := filepath.Join(tmp, fmt.Sprintf("j-%d.json", i))
					b, _ := json.Marshal(job)
					os.WriteFile(jf, b, 0o644)
					cmd := exec.Command(bin, "-test.run", "^TestWorker$", "-test.cpu", gmp)
					cmd.Env = append(os.Environ(), "DSIM_JOB="+jf, "GOMAXPROCS="+gmp)
					if pt.NoRSA {
						cmd.Env = append(cmd.Env, "DSIM_NO_RSA=1")
					}
					if pt.Race {
						cmd.Env = append(cmd.Env, "GORACE=halt_on_error=0 atexit_sleep_ms=0 log_path="+filepath.Join(tmp, fmt.Sprintf("race-%d", i)), "DSIM_ALGS=ed25519,secp256k1", "GOGC=off")
					}
					out, err := cmd.CombinedOutput()
					hb, _ := os.ReadFile(hf)
					mu.Lock()
					defer mu.Unlock()
					if err != nil && !strings.Contains(string(out), "race detected during execution of test") {
						results["ERROR: "+tail(string(out), 300)] = append(results["ERROR"], gmp)
						return
					}
					results[string(hb)] = append(results[string(hb)], gmp)
				}()
			}
		}
		wg.Wait()
		os.RemoveAll(tmp)
		if len(results) == 1 {
			for h := range results {
				fmt.Printf("selftest %-10s OK: 30 processes x %d seeds identical (%d hash lines)\n", s, n, strings.Count(h, "\n"))
			}
		} else {
			bad++
			fmt.Printf("selftest %-10s FAILED: %d different outputs\n", s, len(results))
			for h, g := range results {
				fmt.Printf("  GOMAXPROCS %v: %s\n", g, tail(h, 200))
			}
		}
	}
	if bad > 0 {
		return 2
	}
	return 0
}

// selftestDeep: per (scenario, focus property, tier) 300 seeds, each executed in three
// processes (GOMAXPROCS 1, 4, 16): catches nondeterminism that only some generator paths reach.
func selftestDeep(scen map[string]part, focusOf map[string][]string, only string) int {
	bad := 0
	for _, s := range sortedKeys(scen) {
		if only != "" && s != only {
			continue
		}
		pt := scen[s]
		if pt.Race {
			continue // one run per process there; covered by the plain self-test
		}
		bin := build(false)
		for _, focus := range focusOf[s] {
			for _, tier := range []string{"quick", "thorough"} {
				tmp, _ := os.MkdirTemp(buildDir, "selftest-")
				var mu sync.Mutex
				var wg sync.WaitGroup
				results := map[string]int{}
				for i, gmp := range []string{"1", "4", "16"} {
					wg.Add(1)
					go func(i int, gmp string) {
						defer wg.Done()
						hf := filepath.Join(tmp, fmt.Sprintf("h-%d", i))
						job := &sim.Job{Mode: "batch", Scenario: s, Focus: focus, Tier: tier, BaseSeed: 777, From: 0, To: 300,
							Out: filepath.Join(tmp, fmt.Sprintf("r-%d.json", i)), ReplayDir: tmp, Known: filepath.Join(verifDir, "known_findings.json"), NoMin: true, HashesOut: hf}
						jf := filepath.Join(tmp, fmt.Sprintf("j-%d.json", i))
						b, _ := json.Marshal(job)
						os.WriteFile(jf, b, 0o644)
						cmd := exec.Command(bin, "-test.run", "^TestWorker$", "-test.cpu", gmp)
						cmd.Env = append(os.Environ(), "DSIM_JOB="+jf, "GOMAXPROCS="+gmp)
						cmd.CombinedOutput()
						hb, _ := os.ReadFile(hf)
						mu.Lock()
						results[string(hb)]++
						mu.Unlock()
					}(i, gmp)
				}
				wg.Wait()
				os.RemoveAll(tmp)
				if len(results) == 1 {
					fmt.Printf("selftest-deep %-10s focus=%s tier=%-8s OK (3 processes x 300 seeds)\n", s, focus, tier)
				} else {
					bad++
					fmt.Printf("selftest-deep %-10s focus=%s tier=%-8s FAILED: %d different outputs\n", s, focus, tier, len(results))
					var outs []string
					for h := range results {
						outs = append(outs, h)
					}
					if len(outs) >= 2 {
						a, b := strings.Split(outs[0], "\n"), strings.Split(outs[1], "\n")
						for i := range a {
							if i < len(b) && a[i] != b[i] {
								fmt.Printf("  first difference: %q vs %q\n", a[i], b[i])
								break
							}
						}
					}
				}
			}
		}
	}
	if bad > 0 {
		return 2
	}
	return 0
}
