module dsim

go 1.26

require github.com/ucan-wg/go-ucan v0.0.0

require (
	github.com/decred/dcrd/dcrec/secp256k1/v4 v4.3.0 // indirect
	github.com/libp2p/go-libp2p v0.36.3 // indirect
	github.com/mr-tron/base58 v1.2.0 // indirect
	github.com/multiformats/go-base32 v0.1.0 // indirect
	github.com/multiformats/go-base36 v0.2.0 // indirect
	github.com/multiformats/go-multibase v0.2.0 // indirect
	github.com/multiformats/go-multicodec v0.9.0 // indirect
	github.com/multiformats/go-varint v0.0.7 // indirect
	google.golang.org/protobuf v1.34.2 // indirect
)

replace github.com/ucan-wg/go-ucan => /repo
